#!/usr/bin/env python3
import json, sys, glob, jsonschema
sch = json.load(open('/root/.vp/EVIDENCE.schema.json'))
bad = 0
for p in sorted(glob.glob('/verif/evidence/*.json')):
    try:
        jsonschema.validate(json.load(open(p)), sch)
        print('ok  ', p)
    except Exception as e:
        bad += 1
        print('BAD ', p, str(e)[:300])
sys.exit(bad)
