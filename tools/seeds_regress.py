#!/venv/bin/python
"""Re-run every kept seeded change against its check (quick tier) and record the outcome in its meta.json.
usage: tools/seeds_regress.py [NAME ...]     (NAME = directory under seeded/, default all)
/repo must be clean; each patch is applied, checked and undone in turn.  Exit 1 if a change is missed."""
import sys, os, json, subprocess, glob

VERIF = os.path.dirname(os.path.dirname(os.path.abspath(__file__)))


def main():
    names = sys.argv[1:] or sorted(os.path.basename(d) for d in glob.glob(os.path.join(VERIF, 'seeded', 'C*')))
    missed = []
    for n in names:
        d = os.path.join(VERIF, 'seeded', n)
        p = subprocess.run([os.path.join(VERIF, 'tools', 'try_seed.py'), d, '--refresh', '--no-baseline'], capture_output=True, text=True)
        try:
            res = json.loads(p.stdout)
        except Exception:
            print(n, 'ERROR', p.stdout[-300:], p.stderr[-300:])
            missed.append(n)
            continue
        for prop, c in res['checks'].items():
            keys = [l.split('key=')[1].split(' ')[0] for l in c['lines'] if 'key=' in l]
            print('%-7s %s rc=%s %5.1fs demo %s/%s  %s' % (n, prop, c['rc'], c['wall_s'], res.get('demo_unchanged_rc'), res.get('demo_patched_rc'), ','.join(keys)[:150]))
            if c['rc'] != 1:
                missed.append(n)
    print('missed:', missed)
    return 1 if missed else 0


if __name__ == '__main__':
    sys.exit(main())
