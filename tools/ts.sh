#!/bin/sh
# tools/ts.sh <round> PROP...: evaluate /tmp/wt<round>-<PROP>/seeded, keep it, print a short result
r=$1; shift
for p in "$@"; do /venv/bin/python /verif/tools/try_seed.py /tmp/wt$r-$p/seeded --keep 2>&1 | python3 -c "
import json,sys
s=sys.stdin.read()
try: r=json.loads(s)
except Exception: print(s[-800:]); sys.exit()
print(r['property'], 'demo', r.get('demo_unchanged_rc'), r.get('demo_patched_rc'), 'base', r.get('baseline_ok'), r.get('kept_as'), r.get('apply_error',''))
for k,v in r['checks'].items(): print('  ',k,v['rc'],v['wall_s'],[l[:220] for l in v['lines'][:2]])
"; done
