#!/venv/bin/python
"""Regenerates /verif/MANIFEST.json from the table below (only properties whose
check module exists are claimed; the others are listed under not_applicable
with the reason 'check not built yet').  Validates against the schema."""
import json, os, sys
HERE = os.path.dirname(os.path.dirname(os.path.abspath(__file__)))

T = {
 'C01': ('reference TeX lexer vs real token stream; backward-jump step bound', '5 C01',
         'Held on the generated strings x catcode tables of this run: every (category,text) token compared with an independent three-state reference lexer written from the TeXbook; termination decided by a logical step bound.',
         'reference lexer pvmon/reftex/lexer.py; normal form NF-9 of DESIGN.md'),
 'C02': ('reference TeX expander vs visible text of the parsed program', '5 C02',
         'Held on the generated macro programs of this run: text of the real parse equals an independent evaluation by pvmon.reftex.expand, cross-checked by generator ground truth.',
         'reference expander pvmon/reftex/expand.py; normal forms NF-1..NF-8'),
 'C03': ('reference expander + per-branch marker words and private side-effect counters', '5 C03',
         'Held on generated conditional nestings: exactly the branches the reference selects leave their marker and their counter step.',
         'pvmon/reftex/expand.py conditionals; NF-1'),
 'C04': ('frame-stack model on exhaustive/random Context API histories + shadow stack over push/pop events of real parses', '5 C04',
         'Held on all API histories up to the bound and on random longer ones, and on generated scoped TeX programs: lookups, catcodes and depth agree with a list-of-frames model after every operation.',
         'model in pvmon/props/c04.py; reference expander for TeX-level programs'),
 'C05': ('value-AST ground truth vs bound attributes; exact Fraction number/dimen/glue scanners; enable/disable balance hook', '5 C05',
         'Held on generated signatures x conforming calls and numeric literals: bound values, consumed text and scanner values agree with ground truth / exact rational reference.',
         'pvmon/reftex/numbers.py; NF-11 tolerance'),
 'C06': ('list-of-lists DOM model + invariant walk after every mutator call', '5 C06',
         'Held on exhaustive short and random long edit histories over a node pool: parent/owner links, order and all derived views agree with the model after each operation.',
         'model in pvmon/props/c06.py; preconditions of the statement (detached or fragment arguments)'),
 'C07': ('unique marker words: conservation/order oracle + structural walk of the parsed tree', '5 C07',
         'Held on generated documents: every marker exactly once in source order; parent chains, sectioning nesting, paragraph nesting and charsub placement checked on the real tree.',
         'generator ground truth pvmon/gen/docs.py'),
 'C08': ('LaTeX counter machine vs printed numbers; transitive-reset invariant at Counter hooks; exhaustive representation table', '5 C08',
         'Held on generated documents: each numbered object prints the number an independent LaTeX counter machine gives; reset invariant asserted at every step of a real counter.',
         'pvmon/model/counters.py written from article.cls/book.cls'),
 'C09': ('label->object identity oracle; order-variant agreement; back-patch completeness at Context.label hook', '5 C09',
         'Held on generated documents and their reference-moved variants: each reference resolves (by identity) to the object its label names, dangling ones to none.',
         'generator ground truth'),
 'C10': ('shape ground truth for lists and tabulars vs parsed rows/cells/items', '5 C10',
         'Held on generated lists and tabulars: items, rows, cells, spans, borders and font scoping equal the generated shape.',
         'generator ground truth; colspec expansion model'),
 'C11': ('exact-substring oracle for verbatim; token-sequence equality (reference lexer) for math source', '5 C11',
         'Held on generated verbatim bodies, \\verb delimiters and formula ASTs: content reproduced exactly / source token-equal with user macros expanded.',
         'pvmon/reftex/lexer.py; pvmon/reftex/expand.py'),
 'C12': ('independent HTML parse of output: marker-leaf text equality + differential element/attribute inventory', '5 C12',
         'Held on rendered generated documents with adversarial leaves: decoded text nodes equal the source characters; no element/attribute beyond the bare-marker rendering.',
         'stdlib html.parser as the HTML reading; differential baseline render'),
 'C13': ('file-partition model over marker words; audit-hook exactly-once writes; cross-process determinism', '5 C13',
         'Held on rendered generated documents x split levels x templates: every body marker once in the right file in order; names distinct, clean, identical across hash seeds.',
         'pvmon/model/splitter.py; stdlib html.parser'),
 'C14': ('href/id graph check over the output directory', '5 C14',
         'Held on rendered generated documents: every internal href resolves to a produced file and an existing id; ids unique per file; refs show target numbers; files reachable from index.',
         'stdlib html.parser'),
 'C15': ('history + executable reference model of the filename generator; backward-jump step bound', '5 C15',
         'Held on an exhaustive small scope and on generated templates x request histories: every issued name equals the name the statement determines; no duplicate/reserved name; errors exactly when no fresh name is formable; termination on a logical step bound.',
         'reference model pvmon/props/c15.py:Model (written from the docstring/statement)'),
 'C16': ('layering model (defaults < files < argv) vs real ConfigManager; manual-parsed documented defaults', '5 C16',
         'Held on generated layerings of 0-3 INI files and an argv over every option: read-back value equals the fold of the layers.',
         'Doc/command.tex as the statement of documented defaults; frozen table for undocumented ones'),
 'C17': ('differential vs fresh subprocess + interpreter-wide state snapshots between documents', '5 C17',
         'Held on generated document sequences: B after A1..Ak equals B alone (canonical ids); every class-level holder back at its initial value.',
         'obs.state holder catalogue'),
 'C18': ('index model (path multiset, configured collation key) vs printindex tree, groups and columns', '5 C18',
         'Held on generated entry multisets: tree, merge, page counts, order, groups and column partition equal the model.',
         "plasTeX's configured collator key function is trusted as 'the collation key'"),
 'C19': ('python evaluation of the generated boolean tree vs branch markers/counters', '5 C19',
         'Held on generated ifthen expression trees and loops: the processed branch and iteration count equal the evaluated tree.',
         'generator ground truth'),
 'C20': ('enumeration of every truncation point and single-bit flip of saved label files + save/restore histories', '5 C20',
         'Held on generated label sets: round trip equal; every enumerated corruption leaves restore/persist non-raising, labels a subset, next save complete and loadable.',
         'pickle format as produced by the running interpreter'),
}

LEVEL = {'C20': 'fault_enumeration'}

def main():
    checks = []
    na = []
    for pid in sorted(T):
        tech, ref, text, note = T[pid]
        if os.path.exists(os.path.join(HERE, 'pvmon', 'props', pid.lower() + '.py')):
            checks.append({
                'property_id': pid,
                'quick_cmd': './check %s --tier quick' % pid,
                'thorough_cmd': './check %s --tier thorough' % pid,
                'evidence_file': 'evidence/%s.json' % pid,
                'replay_cmd_template': './check %s --replay {path}' % pid,
                'engine': 'pvmon',
                'level_claimed': {'category': LEVEL.get(pid, 'exploration'), 'text': text, 'design_ref': 'DESIGN.md section ' + ref},
                'level_note': note,
                'technique': 'runtime monitoring: ' + tech,
            })
        else:
            na.append({'property_id': pid, 'reason': 'check not built yet (planned, see DESIGN.md section %s); nothing is claimed for it' % ref})
    m = {
        'version': 1,
        'setup_cmd': '/venv/bin/python -m compileall -q pvmon >/dev/null; /venv/bin/python -c "import plasTeX,sys; sys.exit(0 if plasTeX.__file__.startswith(\'/repo/\') else 1)"',
        'hooks': {
            'guard': 'PLASTEX_VERIF',
            'enable': 'no source hooks: run-time wrappers (pvmon.instrument), sys.monitoring and sys.addaudithook are installed by the check workers themselves on the real classes of /repo\'s working tree',
            'baseline_off_cmd': 'cd /repo && /venv/bin/python -m pytest -ra -q -p no:cacheprovider --timeout=900 --continue-on-collection-errors',
            'source_commits': [],
            'add_only': True,
        },
        'engines': [{'name': 'pvmon', 'path': 'pvmon/', 'serves_properties': [c['property_id'] for c in checks],
                     'kind_free_text': 'workload generators + run-time wrappers + reference models + offline log checkers; pure Python, run by /venv/bin/python against /repo (editable install)'}],
        'checks': checks,
        'not_applicable': na,
        'notes': 'Technique family: runtime monitoring. Compiler sanitizers / race detectors / valgrind are not applicable: plasTeX is single-threaded pure Python without native code (DESIGN.md section 1). Exit codes: 0 held on observed, 1 violation, 2 inconclusive (deciding monitor observed nothing).',
    }
    with open(os.path.join(HERE, 'MANIFEST.json'), 'w') as f:
        json.dump(m, f, indent=1)
    try:
        import jsonschema
        jsonschema.validate(m, json.load(open('/root/.vp/MANIFEST.schema.json')))
        print('MANIFEST.json valid;', len(checks), 'checks,', len(na), 'not yet claimed')
    except ImportError:
        print('MANIFEST.json written (jsonschema not available here);', len(checks), 'checks')

main()
