#!/usr/bin/env python3
"""Prepare a round of seeded-change sub-agents: one scratch worktree of /repo and one prompt per property.
The prompt holds only the property text (from properties.jsonl), the worktree path and the one-line summaries
of the changes already kept for that property (so that the next agent uses another mechanism).

usage: tools/mk_seed_prompts.py <round-tag> [PROP ...]      -> /tmp/wt<tag>-<id>, /tmp/prompt<tag>_<id>.txt"""
import sys, os, json, glob, subprocess

VERIF = os.path.dirname(os.path.dirname(os.path.abspath(__file__)))
TEMPLATE = open(os.path.join(VERIF, 'tools', 'seed_prompt_template.txt')).read()


def main():
    tag = sys.argv[1]
    want = sys.argv[2:]
    for line in open(os.path.join(VERIF, 'properties.jsonl')):
        p = json.loads(line)
        pid = p['id']
        if want and pid not in want:
            continue
        wt = '/tmp/wt%s-%s' % (tag, pid)
        if not os.path.exists(wt):
            subprocess.run(['git', '-C', '/repo', 'worktree', 'add', '-q', '--detach', wt, 'HEAD'], check=True)
        taken = []
        for d in sorted(glob.glob(os.path.join(VERIF, 'seeded', pid + '*'))):
            try:
                taken.append(json.load(open(os.path.join(d, 'meta.json')))['summary'])
            except Exception:
                pass
        note = ''
        if taken:
            note = ('Note: other engineers have already delivered the following change(s) for this property. Yours must break the property through a DIFFERENT '
                    'mechanism, in a different function, and ideally a different clause of the property statement (do not produce a variation of theirs):\n'
                    + ''.join('  - %s\n' % t for t in taken) + '\n')
        q = p.get('quantifier') or ''
        if isinstance(q, dict):
            q = q.get('text', '')
        text = (TEMPLATE.replace('@WT@', wt).replace('@ID@', pid).replace('@TITLE@', p['title']).replace('@STATEMENT@', p['statement'])
                .replace('@QUANT@', ('Quantified over: %s\n' % q) if q else '').replace('@NOTE@', note))
        open('/tmp/prompt%s_%s.txt' % (tag, pid), 'w').write(text)
        print(pid, wt, len(taken), 'taken')


if __name__ == '__main__':
    main()
