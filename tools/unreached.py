#!/usr/bin/env python3
"""Print the source lines of the anchored functions that the last run of a check did not execute (from evidence/<id>.json)."""
import sys, json, os, linecache, inspect
VERIF = os.path.dirname(os.path.dirname(os.path.abspath(__file__)))
e = json.load(open(os.path.join(VERIF, 'evidence', sys.argv[1] + '.json')))
import subprocess
code = r'''
import json, sys, importlib, inspect
sys.path.insert(0, %r)
m = importlib.import_module('pvmon.props.%s')
out = {}
for name, f in m.anchors().items():
    f = getattr(f, '__func__', f)
    if isinstance(f, property): f = f.fget
    try: out[name] = inspect.getsourcefile(f)
    except Exception: pass
print(json.dumps(out))
''' % (VERIF, sys.argv[1].lower())
files = json.loads(subprocess.run(['/venv/bin/python', '-c', code], capture_output=True, text=True, check=True).stdout)
for name, lines in e['coverage'].get('anchor_lines_not_executed', {}).items():
    print('==', name, files.get(name))
    for l in lines:
        print('  %5d %s' % (l, linecache.getline(files.get(name, ''), l).rstrip()))
