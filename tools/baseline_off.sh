#!/bin/sh
# Runs the repository's pinned test suite with the verification guard OFF and
# compares the set of passing tests with BASELINE.json's stable_pass list.
unset PLASTEX_VERIF
OUT="${1:-/tmp/pvmon-baseline.$$.xml}"
cd /repo && /venv/bin/python -m pytest -ra -q -p no:cacheprovider --timeout=900 --continue-on-collection-errors --junitxml="$OUT" >/dev/null 2>&1
/venv/bin/python - "$OUT" <<'PY'
import sys, json, xml.etree.ElementTree as ET
base = json.load(open('/root/.vp/BASELINE.json'))
want = set(base['stable_pass'])
passed = set()
for tc in ET.parse(sys.argv[1]).getroot().iter('testcase'):
    if not any(c.tag in ('failure', 'error', 'skipped') for c in tc):
        passed.add(tc.get('classname') + '::' + tc.get('name'))
missing = sorted(want - passed)
print('baseline stable tests: %d, passing now: %d, missing: %d' % (len(want), len(want & passed), len(missing)))
for m in missing[:40]:
    print('  NOT PASSING:', m)
sys.exit(1 if missing else 0)
PY
rc=$?
rm -f "$OUT"
exit $rc
