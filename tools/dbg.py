#!/venv/bin/python
"""debug helper: run shard 0 of NSHARDS in-process and print notes/violations
usage: tools/dbg.py C06 quick [nshards] [maxcases]"""
import sys, os, json, itertools
sys.path.insert(0, os.path.dirname(os.path.dirname(os.path.abspath(__file__))))
from pvmon import common, worker
prop, tier = sys.argv[1], sys.argv[2]
nsh = int(sys.argv[3]) if len(sys.argv) > 3 else 64
mx = int(sys.argv[4]) if len(sys.argv) > 4 else 10**9
common.quiet_logging()
mod = worker.load(prop)
st = common.Stats()
mod.setup(st)
for case in itertools.islice(mod.cases(int(os.environ.get('VERIF_SEED', 0)), tier, 0, nsh), mx):
    worker.run_one(mod, case, st, mod.budget(tier).get('case_timeout', 10))
print('evaluations', st.evaluations, dict(st.outcomes))
for k, n in st.notes.items():
    print('NOTE x%d: %s' % (n, k[:3000]))
for k, v in st.viol.items():
    print('VIOL %s x%d: %s' % (k, v['n'], v['witnesses'][0]['msg'][:1500]))
    print('    case:', json.dumps(v['witnesses'][0]['case'], default=repr)[:1500])
print('hooks', dict(st.hooks))
print('counters', dict(st.counters))
print('features', {k: sorted(map(str, v))[:40] for k, v in st.features.items()})
