#!/usr/bin/env python3
"""Print the markdown table of DESIGN.md section 7 from seeded/*/meta.json."""
import json, os, re, glob

VERIF = os.path.dirname(os.path.dirname(os.path.abspath(__file__)))


def esc(s):
    return s.replace('|', '\\|').replace('\n', ' ')


def keys_of(lines):
    ks = []
    for l in lines:
        m = re.search(r'key=(\S+) cases=(\d+)', l)
        if m:
            ks.append('%s (%s)' % (m.group(1), m.group(2)))
    return ks


def main():
    rows = []
    for d in sorted(glob.glob(os.path.join(VERIF, 'seeded', '*'))):
        mp = os.path.join(d, 'meta.json')
        if not os.path.exists(mp):
            continue
        m = json.load(open(mp))
        v = m.get('verified_by_pvmon', {})
        name = os.path.basename(d)
        for prop, c in sorted(v.get('checks', {}).items()):
            first = ''
            if v.get('earlier_results'):
                first = ' First version of the check: missed (rc %s).' % ','.join(str(list(e.values())[0]['rc']) for e in v['earlier_results'])
            verdict = {0: '**missed**', 1: 'caught', 2: 'inconclusive'}.get(c['rc'], str(c['rc']))
            rows.append('| `seeded/%s` | %s | %s | %s, %ss: %s.%s |' % (
                name, esc(m.get('summary', ''))[:420], esc(m.get('needs', ''))[:300], verdict, c.get('wall_s'), esc('; '.join(keys_of(c.get('lines', []))) or '-'), first))
    print('| Change | What it does (the sub-agent\'s summary) | Needs, to manifest | `./check <id>` quick tier with the change applied: violation keys (cases) |')
    print('|---|---|---|---|')
    for r in rows:
        print(r)


if __name__ == '__main__':
    main()
