#!/usr/bin/env python3
"""Refresh the generated tables of DESIGN.md (between <!-- name:begin --> and <!-- name:end --> markers)."""
import os, re, subprocess, sys
VERIF = os.path.dirname(os.path.dirname(os.path.abspath(__file__)))


def put(s, name, text):
    a, b = '<!-- %s:begin -->' % name, '<!-- %s:end -->' % name
    i, j = s.index(a) + len(a), s.index(b)
    return s[:i] + '\n' + text.strip('\n') + '\n' + s[j:]


def main():
    p = os.path.join(VERIF, 'DESIGN.md')
    s = open(p).read()
    t = subprocess.run([sys.executable, os.path.join(VERIF, 'tools', 'seeded_table.py')], capture_output=True, text=True, check=True).stdout
    s = put(s, 'seeded-table', t)
    open(p, 'w').write(s)


if __name__ == '__main__':
    main()
