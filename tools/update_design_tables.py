#!/usr/bin/env python3
"""Refresh the generated tables of DESIGN.md (between <!-- name:begin --> and <!-- name:end --> markers)."""
import json, os, re, subprocess, sys
VERIF = os.path.dirname(os.path.dirname(os.path.abspath(__file__)))


def put(s, name, text):
    a, b = '<!-- %s:begin -->' % name, '<!-- %s:end -->' % name
    i, j = s.index(a) + len(a), s.index(b)
    return s[:i] + '\n' + text.strip('\n') + '\n' + s[j:]


def esc(x):
    return str(x).replace('|', '\\|').replace('\n', ' ')


def seeded_stats():
    import glob
    tot, missed, now_missed = 0, [], []
    for d in sorted(glob.glob(os.path.join(VERIF, 'seeded', 'C*'))):
        try:
            v = json.load(open(os.path.join(d, 'meta.json'))).get('verified_by_pvmon', {})
        except Exception:
            continue
        tot += 1
        if any(list(e.values())[0]['rc'] == 0 for e in v.get('earlier_results', [])):
            missed.append(os.path.basename(d))
        if any(c.get('rc') != 1 for c in v.get('checks', {}).values()):
            now_missed.append(os.path.basename(d))
    return ('%d changes are kept.  **%d were caught by the version of the check they first met; %d were missed at first** (%s) and are caught now.%s'
            % (tot, tot - len(missed), len(missed), ', '.join('`%s`' % m for m in missed),
               ('  Not caught at present: %s.' % ', '.join(now_missed)) if now_missed else '  `tools/seeds_regress.py` reports no change as missed at present.'))


def fixed_table():
    import json
    k = json.load(open(os.path.join(VERIF, 'known_findings.json')))
    rows = ['%d repaired defects.' % len(k['fixed']), '', '| Property | commit | what failed on the pinned tree |', '|---|---|---|']
    for f in k['fixed']:
        rows.append('| %s | `%s` | %s |' % (f['property'], f['commit'], esc(f['what'])))
    return '\n'.join(rows)


def figures_table():
    import json, glob
    rows = ['| Prop | tier, seed | cases | distinct non-trivial | wall | hook events | monitor counters (largest) | distinct states observed |', '|---|---|---|---|---|---|---|---|']
    for f in sorted(glob.glob(os.path.join(VERIF, 'evidence', 'C*.json'))):
        e = json.load(open(f))
        c = e['coverage']
        mc = sorted(((v, k) for k, v in c.get('monitor_counters', {}).items() if isinstance(v, (int, float)) and not k.startswith('nf9_skip')), reverse=True)[:4]
        ds = sorted(((v, k) for k, v in c.get('distinct_states', {}).items()), reverse=True)[:4]
        rows.append('| %s | %s, %s | %s | %s | %s s | %s | %s | %s |' % (
            e['property_id'], e['tier'], e['seed'], c['evaluations'], c['distinct_nontrivial'], e['wall_s'], sum(c.get('hook_events', {}).values()),
            esc(', '.join('%s=%s' % (k, v) for v, k in mc)) or '-', esc(', '.join('%s: %s' % (k, v) for v, k in ds)) or '-'))
    return '\n'.join(rows)


def asbuilt():
    """per-property as-built notes from the check modules (needs the repository's interpreter for the imports)"""
    import json
    code = r"""
import json, importlib, sys, glob, os
sys.path.insert(0, %r)
out = {}
for i in range(1, 21):
    pid = 'C%%02d' %% i
    m = importlib.import_module('pvmon.props.c%%02d' %% i)
    out[pid] = {'doc': (m.__doc__ or '').strip(), 'rule': m.RULE, 'assumptions': list(getattr(m, 'ASSUMPTIONS', [])), 'level': getattr(m, 'LEVEL', ''),
                'hooks': list(getattr(m, 'DECIDING_HOOKS', [])), 'reach': list(getattr(m, 'DECIDING_REACH', [])), 'counters': dict(getattr(m, 'DECIDING_COUNTERS', {})),
                'watch': dict(getattr(m, 'WATCH_LINES', {})), 'budget': {t: {k: v for k, v in m.budget(t).items()} for t in ('quick', 'thorough')}}
print(json.dumps(out))
""" % VERIF
    r = subprocess.run(['/venv/bin/python', '-c', code], capture_output=True, text=True, check=True, env=dict(os.environ, PYTHONHASHSEED='0'))
    mods = json.loads(r.stdout)
    import glob
    res = {}
    for pid, m in mods.items():
        L = []
        L.append('*What runs.* ' + ' '.join(x.strip() for x in m['doc'].splitlines()[1:] if x.strip()))
        L.append('')
        L.append('*Workload.* ' + m['rule'])
        L.append('')
        L.append('*Budgets.* quick %s; thorough %s.' % (json.dumps(m['budget']['quick']), json.dumps(m['budget']['thorough'])))
        L.append('')
        dec = []
        if m['hooks']:
            dec.append('wrappers that must fire: ' + ', '.join('`%s`' % h for h in m['hooks']))
        if m['reach']:
            dec.append('functions that must be entered: ' + ', '.join('`%s`' % h for h in m['reach']))
        if m['counters']:
            dec.append('monitor counters with a floor: ' + ', '.join('`%s` >= %s' % kv for kv in sorted(m['counters'].items())))
        if m['watch']:
            dec.append('watched statements (each must be executed): ' + ', '.join('`%s` ~ `%s`' % kv for kv in sorted(m['watch'].items())))
        L.append('*Inconclusive unless* ' + '; '.join(dec) + '; at least 2 distinct non-trivial cases; no harness error, no per-case timeout.')
        L.append('')
        if m['assumptions']:
            L.append('*Assumptions.* ' + '; '.join(m['assumptions']) + '.')
            L.append('')
        seeds = []
        for d in sorted(glob.glob(os.path.join(VERIF, 'seeded', pid + '*'))):
            try:
                meta = json.load(open(os.path.join(d, 'meta.json')))
            except Exception:
                continue
            v = meta.get('verified_by_pvmon', {})
            c = v.get('checks', {}).get(pid, {})
            keys = sorted(set(re.findall(r'key=(\S+)', ' '.join(c.get('lines', [])))))
            first = ' (missed by the first version)' if any(list(e.values())[0]['rc'] == 0 for e in v.get('earlier_results', [])) else ''
            seeds.append('`seeded/%s`%s -> %s' % (os.path.basename(d), first, ', '.join('`%s`' % k for k in keys[:4]) or 'rc %s' % c.get('rc')))
        if seeds:
            L.append('*Seeded changes caught (quick tier).* ' + '; '.join(seeds) + '.')
        res[pid] = '\n'.join(esc2(x) for x in L)
    return res


def esc2(x):
    return x


def main():
    p = os.path.join(VERIF, 'DESIGN.md')
    s = open(p).read()
    t = subprocess.run([sys.executable, os.path.join(VERIF, 'tools', 'seeded_table.py')], capture_output=True, text=True, check=True).stdout
    s = put(s, 'seeded-table', t)
    s = put(s, 'seeded-stats', seeded_stats())
    s = put(s, 'fixed-table', fixed_table())
    s = put(s, 'figures-table', figures_table())
    for pid, text in asbuilt().items():
        s = put(s, 'asbuilt-' + pid, text)
    open(p, 'w').write(s)


if __name__ == '__main__':
    main()
