#!/venv/bin/python
"""Evaluate one seeded change against the checks.

usage: tools/try_seed.py <dir with patch.diff, demo.py, meta.json> [PROP ...] [--tier quick] [--no-baseline]

1. demo on the unchanged /repo must exit 0;
2. the patch is applied to /repo (git apply), the demo must exit non-zero,
   the repository's pinned suite must still pass (baseline_off.sh), and the
   listed checks (default: the property named in meta.json) are run;
3. the patch is undone (git checkout -- .) whatever happens.
Prints a JSON summary."""
import sys, os, json, subprocess, time

VERIF = os.path.dirname(os.path.dirname(os.path.abspath(__file__)))


def sh(cmd, **kw):
    return subprocess.run(cmd, shell=True, capture_output=True, text=True, **kw)


def main():
    args = [a for a in sys.argv[1:] if not a.startswith('--')]
    flags = [a for a in sys.argv[1:] if a.startswith('--')]
    d = os.path.abspath(args[0])
    meta = json.load(open(os.path.join(d, 'meta.json')))
    props = args[1:] or [meta['property']]
    tier = 'thorough' if '--thorough' in flags else 'quick'
    res = {'dir': d, 'property': meta['property'], 'checks': {}}
    assert sh('git -C /repo status --porcelain').stdout.strip() == '', '/repo is not clean'
    env = dict(os.environ, PYTHONPATH='/repo')
    demo = os.path.join(d, 'demo.py')
    r0 = subprocess.run(['/venv/bin/python', demo], cwd='/repo', env=env, capture_output=True, text=True, timeout=600)
    res['demo_unchanged_rc'] = r0.returncode
    ap = sh('git -C /repo apply --whitespace=nowarn %s' % os.path.join(d, 'patch.diff'))
    if ap.returncode != 0:
        res['apply_error'] = ap.stderr[-500:]
        print(json.dumps(res, indent=1))
        return 2
    try:
        r1 = subprocess.run(['/venv/bin/python', demo], cwd='/repo', env=env, capture_output=True, text=True, timeout=600)
        res['demo_patched_rc'] = r1.returncode
        res['demo_patched_out'] = (r1.stdout + r1.stderr)[-400:]
        if '--no-baseline' not in flags:
            b = sh(os.path.join(VERIF, 'tools', 'baseline_off.sh'))
            res['baseline_ok'] = (b.returncode == 0)
            res['baseline_out'] = b.stdout[-300:]
        for p in props:
            t0 = time.time()
            c = sh('cd %s && ./check %s --tier %s --no-evidence' % (VERIF, p, tier))
            lines = [l[:400] for l in c.stdout.splitlines() if l.startswith(('VIOLATION', 'INCONCLUSIVE', 'KNOWN'))]
            res['checks'][p] = {'rc': c.returncode, 'wall_s': round(time.time() - t0, 1), 'lines': lines[:4]}
    finally:
        sh('git -C /repo checkout -- .')
        sh('git -C /repo clean -fdq -- plasTeX')
    if '--refresh' in flags:
        # d is an already kept /verif/seeded/<id> directory: record the new result, keep the earlier one as history
        v = meta.setdefault('verified_by_pvmon', {})
        old = v.get('checks')
        if old and old != res['checks']:
            v.setdefault('earlier_results', []).append(old)
        v.update({'demo_exit_on_unchanged_tree': res.get('demo_unchanged_rc'), 'demo_exit_with_patch': res.get('demo_patched_rc'),
                  'pinned_suite_passes_with_patch': res.get('baseline_ok', v.get('pinned_suite_passes_with_patch')), 'checks': res['checks']})
        json.dump(meta, open(os.path.join(d, 'meta.json'), 'w'), indent=1)
    if '--keep' in flags:
        import shutil
        name = meta['property']
        dst = os.path.join(VERIF, 'seeded', name)
        k = 1
        while os.path.exists(dst):
            k += 1
            dst = os.path.join(VERIF, 'seeded', '%s-%d' % (name, k))
        os.makedirs(dst)
        for f in ('patch.diff', 'demo.py'):
            shutil.copy(os.path.join(d, f), dst)
        meta['verified_by_pvmon'] = {
            'demo_exit_on_unchanged_tree': res.get('demo_unchanged_rc'), 'demo_exit_with_patch': res.get('demo_patched_rc'),
            'pinned_suite_passes_with_patch': res.get('baseline_ok'),
            'what_was_run': 'tools/try_seed.py: git -C /repo apply patch.diff; demo.py; tools/baseline_off.sh; ./check <id> --tier %s; git -C /repo checkout -- .' % tier,
            'checks': res['checks']}
        json.dump(meta, open(os.path.join(dst, 'meta.json'), 'w'), indent=1)
        res['kept_as'] = dst
    print(json.dumps(res, indent=1))
    return 0


if __name__ == '__main__':
    sys.exit(main())
