#!/bin/sh
# runs every registered check at the given tier (default quick); prints one line per property
TIER=${1:-quick}
cd "$(dirname "$0")/.." || exit 2
rc=0
for p in C01 C02 C03 C04 C05 C06 C07 C08 C09 C10 C11 C12 C13 C14 C15 C16 C17 C18 C19 C20; do
  s=$(date +%s)
  out=$(./check $p --tier $TIER 2>&1); r=$?
  e=$(date +%s)
  echo "$p rc=$r $((e-s))s $(echo "$out" | grep -c '^KNOWN-FINDING') known :: $(echo "$out" | grep -E '^(VIOLATION|INCONCLUSIVE)' | head -2 | cut -c1-200)"
  [ $r -ne 0 ] && rc=1
done
exit $rc
