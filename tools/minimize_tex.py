#!/venv/bin/python
"""Shrink a TeX program on which plasTeX and the reference expander disagree (greedy removal of balanced chunks).
usage: tools/minimize_tex.py <file with the program>  |  tools/minimize_tex.py --replay replays/C04/<sha>.json"""
import sys, os, re, json
sys.path.insert(0, os.path.dirname(os.path.dirname(os.path.abspath(__file__))))
from pvmon import common
from pvmon.reftex import expand as E
common.quiet_logging()


def ref(p):
    try:
        return re.sub(r'\s+', '', E.run(p)[0])
    except Exception:
        return None


def real(p):
    from plasTeX.TeX import TeX
    common.plastex_reset()
    try:
        t = TeX()
        t.input(p)
        d = t.parse()
        return re.sub(r'\s+', '', d.textContent), len(d.context.contexts)
    except Exception as e:
        return 'EXC ' + type(e).__name__, 0
    finally:
        common.plastex_reset()


def differs(p):
    r = ref(p)
    if r is None:
        return False
    g, depth = real(p)
    return g != r or depth != 1


def chunks(p):
    """candidate spans to delete: balanced {...} groups, control sequences with their spaces, probe runs, single chars"""
    out = []
    st = []
    for i, c in enumerate(p):
        if c == '{':
            st.append(i)
        elif c == '}' and st:
            j = st.pop()
            out.append((j, i + 1))
            out.append((j + 1, i))
    for m in re.finditer(r' P(\\[A-Za-z@]+ )+\\ifzqsw T\\else F\\fi \\arabic\{zqcnt\}p ', p):
        out.append(m.span())
    for m in re.finditer(r'\\begin\{(\w+)\}(\{cc\})?', p):
        e = p.find('\\end{%s}' % m.group(1), m.end())
        if e >= 0:
            out.append((m.start(), e + len('\\end{%s}' % m.group(1))))
            out.append((m.start(), m.end()))
    for m in re.finditer(r'\\(global\\)?(def|gdef|let)\\[A-Za-z@]+(=\\?[A-Za-z@]+ ?|\{[^{}]*\})', p):
        out.append(m.span())
    for m in re.finditer(r'\\[A-Za-z@]+ ?', p):
        out.append(m.span())
    out.sort(key=lambda s: s[0] - s[1])
    return out


def main():
    if sys.argv[1] == '--replay':
        c = json.load(open(sys.argv[2]))['case']
        p = c.get('program') or (c.get('pre', '') + c.get('body', ''))
    else:
        p = open(sys.argv[1]).read()
    assert differs(p), 'no disagreement on the given program'
    changed = True
    while changed:
        changed = False
        for a, b in chunks(p):
            q = p[:a] + p[b:]
            if len(q) < len(p) and differs(q):
                p = q
                changed = True
                break
    print(p)
    print('reference:', ref(p))
    print('plasTeX  :', real(p))


if __name__ == '__main__':
    main()
