"""LaTeX counter machine (C08), written from article.cls / book.cls / latex.ltx,
walking the same AST as the printer (pvmon.gen.docs).

numbers(doc_ast, secnumdepth) -> list of (kind, expected printed number or None, hint)
in document order, for the numbered objects the statement lists: sectioning
units, equations, eqnarray rows, figure/table captions, theorem-like
environments, enumerate items.
"""

SEC_COUNTER = {-1: 'part', 0: 'chapter', 1: 'section', 2: 'subsection', 3: 'subsubsection', 4: 'paragraph', 5: 'subparagraph'}


def alph(n, upper=False):
    s = 'abcdefghijklmnopqrstuvwxyz'[n - 1] if 1 <= n <= 26 else '?'
    return s.upper() if upper else s


def roman(n, upper=False):
    vals = [(1000, 'm'), (900, 'cm'), (500, 'd'), (400, 'cd'), (100, 'c'), (90, 'xc'), (50, 'l'), (40, 'xl'), (10, 'x'), (9, 'ix'), (5, 'v'), (4, 'iv'), (1, 'i')]
    out = ''
    for v, s in vals:
        while n >= v:
            out += s
            n -= v
    return out.upper() if upper else out


class Machine(object):
    def __init__(self, cls, theorems=()):
        self.cls = cls
        self.v = {}
        self.within = {}
        book = cls in ('book', 'report')
        for c in ('part', 'chapter', 'section', 'subsection', 'subsubsection', 'paragraph', 'subparagraph', 'equation', 'figure', 'table',
                  'enumi', 'enumii', 'enumiii', 'enumiv', 'footnote'):
            self.v[c] = 0
        self.within.update({'subsection': 'section', 'subsubsection': 'subsection', 'paragraph': 'subsubsection', 'subparagraph': 'paragraph',
                            'enumii': 'enumi', 'enumiii': 'enumii', 'enumiv': 'enumiii'})
        if book:
            self.within.update({'section': 'chapter', 'equation': 'chapter', 'figure': 'chapter', 'table': 'chapter', 'footnote': 'chapter'})
        self.appendix = False
        self.user_trace = []
        self.thm_counter = {}
        self.thm_within = {}
        if 'zqthm' in theorems or 'zqlem' in theorems:
            self.v['zqthm'] = 0
            self.thm_counter['zqthm'] = 'zqthm'
            self.thm_counter['zqlem'] = 'zqthm'
        if 'zqdef' in theorems:
            self.v['zqdef'] = 0
            self.within['zqdef'] = 'section'
            self.thm_counter['zqdef'] = 'zqdef'
            self.thm_within['zqdef'] = 'section'

    def reset_children(self, c):
        for k, p in self.within.items():
            if p == c:
                self.v[k] = 0
                self.reset_children(k)

    def step(self, c):
        self.v[c] += 1
        self.reset_children(c)

    # \the... ------------------------------------------------------------------
    def the(self, c):
        v = self.v
        book = self.cls in ('book', 'report')
        if c == 'part':
            return roman(v['part'], True)
        if c == 'chapter':
            return alph(v['chapter'], True) if self.appendix else str(v['chapter'])
        if c == 'section':
            if book:
                return self.the('chapter') + '.' + str(v['section'])
            return alph(v['section'], True) if self.appendix else str(v['section'])
        if c in ('subsection', 'subsubsection', 'paragraph', 'subparagraph'):
            return self.the(self.within[c]) + '.' + str(v[c])
        if c in ('equation', 'figure', 'table'):
            if book and self.appendix and v['chapter'] <= 0:
                return '?'          # \Alph{0}: outside the range of the representation, not judged
            if book and v['chapter'] > 0:
                return self.the('chapter') + '.' + str(v[c])
            return str(v[c])
        if c in self.thm_within:
            return self.the(self.thm_within[c]) + '.' + str(v[c])
        return str(v[c])


def numbers(doc, secnumdepth=2):
    m = Machine(doc['cls'], doc.get('theorems', ()))
    if doc.get('user_counters'):
        m.v['zqu'] = m.v['zqw'] = 0
        m.within['zqu'] = 'section'
        m.within['zqw'] = 'zqu'
    out = []
    listdepth = [0]

    def blocks(bs):
        for b in bs:
            t = b['t']
            if t == 'list':
                listdepth[0] += 1
                d = listdepth[0]
                ctr = ['enumi', 'enumii', 'enumiii', 'enumiv'][min(d, 4) - 1]
                if b['kind'] == 'enumerate':
                    m.v[ctr] = 0
                n = 0
                for it in b['items']:
                    if b['kind'] == 'enumerate':
                        if 'term' not in it:
                            m.step(ctr)
                            out.append(('item', str(m.v[ctr]), it.get('label')))
                        else:
                            out.append(('item', None, None))
                    blocks(it['c'])
                listdepth[0] -= 1
            elif t in ('env',):
                blocks(b['c'])
            elif t == 'equation':
                if b['star']:
                    out.append(('equation', None, None))
                else:
                    m.step('equation')
                    out.append(('equation', m.the('equation'), b.get('label')))
            elif t == 'eqnarray' and b.get('star'):
                pass
            elif t == 'eqnarray':
                for row in b['rows']:
                    if row['nonumber']:
                        out.append(('eqnrow', None, None))
                    else:
                        m.step('equation')
                        out.append(('eqnrow', m.the('equation'), row.get('label')))
                if b.get('trail'):
                    m.step('equation')      # the empty row after a trailing \\ takes a number of its own
            elif t == 'float':
                def cap():
                    if b['caption'] is not None:
                        m.step(b['kind'])
                        out.append(('caption', m.the(b['kind']), b.get('label')))
                if b['caption_first']:
                    cap()
                blocks(b['c'])
                if not b['caption_first']:
                    cap()
            elif t == 'theorem':
                c = m.thm_counter[b['env']]
                m.step(c)
                out.append(('theorem', m.the(c), b.get('label')))
                blocks(b['c'])
            elif t == 'tabular':
                pass
            elif t == 'counter':
                if b['op'] == 'stepcounter':
                    m.step(b['name'])
                elif b['op'] == 'setcounter':
                    m.v[b['name']] = b['value']
                else:
                    m.v[b['name']] += b['value']
                if b['name'] in ('zqu', 'zqw'):
                    m.user_trace.append('Zu%dv%dw' % (m.v['zqu'], m.v['zqw']))

    blocks(doc.get('pre_counters', []))

    def sec(s):
        c = SEC_COUNTER[s['level']]
        if s['star']:
            out.append(('sec', None, s.get('label')))
        elif s['level'] > secnumdepth:
            # LaTeX does not step counters of units deeper than secnumdepth
            out.append(('sec', None, s.get('label')))
        else:
            m.step(c)
            out.append(('sec', m.the(c) if s['level'] >= 0 else 'part', s.get('label')))
        blocks(s['c'])
        for sub in s['subs']:
            sec(sub)

    blocks(doc['c'])
    for i, s in enumerate(doc['secs']):
        if doc.get('appendix') == i:
            m.appendix = True
            if doc['cls'] in ('book', 'report'):
                m.v['chapter'] = 0
                m.v['section'] = 0
            else:
                m.v['section'] = 0
                m.v['subsection'] = 0
        sec(s)
    return out, m
