"""Run-time wrapper installer.  Wraps real methods of the code under test
(including every alias of the same function object found in the class body),
counts evaluations per hook, and lets a monitor run before/after the call.

No source edit of /repo is involved; wrappers are installed only in the worker
process of a check."""
import functools, sys

_installed = []


def wrap(cls, name, after=None, before=None, stats=None, hook=None):
    """Replace cls.<name> (and aliases bound to the same function in cls.__dict__)
    by a wrapper.  `before(self,*a,**k)` may return a token passed to
    `after(token, result, exc, self, *a, **k)`.  Returns number of names patched."""
    hook = hook or '%s.%s' % (cls.__name__, name)
    orig = cls.__dict__.get(name)
    if orig is None:
        if stats is not None:
            stats.notes['hook-missing:' + hook] += 1
        return 0
    raw = orig
    if isinstance(orig, (staticmethod, classmethod)):
        raise TypeError('not supported')

    @functools.wraps(raw)
    def wrapper(self, *a, **k):
        if stats is not None:
            stats.hooks[hook] += 1
        tok = before(self, *a, **k) if before else None
        try:
            res = raw(self, *a, **k)
        except BaseException as e:
            if after:
                after(tok, None, e, self, *a, **k)
            raise
        if after:
            after(tok, res, None, self, *a, **k)
        return res

    wrapper.__pvmon_orig__ = raw
    n = 0
    for k2, v in list(cls.__dict__.items()):
        if v is raw:
            setattr(cls, k2, wrapper)
            _installed.append((cls, k2, raw))
            n += 1
    return n


def wrap_property(cls, name, after=None, stats=None, hook=None):
    hook = hook or '%s.%s' % (cls.__name__, name)
    prop = cls.__dict__.get(name)
    if not isinstance(prop, property):
        if stats is not None:
            stats.notes['hook-missing:' + hook] += 1
        return 0
    fget = prop.fget

    def getter(self):
        if stats is not None:
            stats.hooks[hook] += 1
        res = fget(self)
        if after:
            after(self, res)
        return res

    setattr(cls, name, property(getter, prop.fset, prop.fdel, prop.__doc__))
    _installed.append((cls, name, prop))
    return 1


def unwrap_all():
    while _installed:
        cls, name, raw = _installed.pop()
        setattr(cls, name, raw)


class AuditLog(object):
    """Records files opened for writing (sys.addaudithook is permanent, so a
    single hook is installed once and switched on/off)."""
    _hooked = False
    active = None

    def __init__(self):
        self.writes = []

    @classmethod
    def _hook(cls, event, args):
        a = cls.active
        if a is not None and event == 'open':
            path, mode = args[0], args[1]
            if isinstance(mode, str) and any(c in mode for c in 'wax+') and isinstance(path, str):
                a.writes.append(path)

    def __enter__(self):
        if not AuditLog._hooked:
            sys.addaudithook(AuditLog._hook)
            AuditLog._hooked = True
        AuditLog.active = self
        return self

    def __exit__(self, *a):
        AuditLog.active = None
