"""One shard of a check: generate -> execute under monitors -> judge -> summary JSON.

usage: python -m pvmon.worker PROP SHARD NSHARDS SEED TIER OUT
"""
import sys, os, json, importlib, time, traceback, faulthandler

from . import common
from .reach import Reach


def load(prop):
    return importlib.import_module('pvmon.props.' + prop.lower())


def run_one(mod, case, st, timeout):
    """Run one case under the per-case alarm.  Unexpected exceptions of the
    *harness* are recorded as harness errors (inconclusive), never as
    violations of the property; exceptions of the code under test are caught
    and judged inside mod.run."""
    st.evaluations += 1
    common.arm(timeout)
    try:
        res = mod.run(case, st) or {}
        st.outcomes['judged'] += 1
    except common.CaseTimeout:
        res = {}
        st.outcomes['timeout'] += 1
        if len(st.samples) < 8:
            st.notes['timeout-case:' + json.dumps(case, default=repr)[:300]] += 1
    except Exception:
        res = {}
        st.outcomes['harness_error'] += 1
        st.notes['harness-error:' + traceback.format_exc()[-1500:]] += 1
    finally:
        common.disarm()
    if res.get('skip'):
        st.outcomes['skip:' + str(res['skip'])] += 1
    if res.get('nontrivial'):
        st.nontrivial_hashes.add(common.case_hash(case))
    if len(st.samples) < 3 and res.get('nontrivial'):
        st.samples.append(res.get('sample', case))
    return res


def main(argv):
    prop, shard, nshards, seed, tier, out = argv[0], int(argv[1]), int(argv[2]), int(argv[3]), argv[4], argv[5]
    faulthandler.enable()
    common.quiet_logging()
    mod = load(prop)
    st = common.Stats()
    b = mod.budget(tier)
    t0 = time.time()
    reach = Reach()
    mod.setup(st)
    if hasattr(mod, 'anchors'):
        for name, f in mod.anchors().items():
            if not reach.add(name, f):
                st.notes['anchor-missing:' + name] += 1
    reach.start()
    deadline = t0 + b.get('worker_budget_s', 1e9)
    try:
        for case in mod.cases(seed, tier, shard, nshards):
            run_one(mod, case, st, b.get('case_timeout', 10))
            if time.time() > deadline:
                st.notes['worker-budget-exhausted'] += 1
                break
    finally:
        reach.stop()
    if hasattr(mod, 'teardown'):
        mod.teardown(st)
    st.reach = reach.report()
    d = st.dump()
    d['watched'] = reach.watched(getattr(mod, 'WATCH_LINES', {}))
    d['reach_detail'] = reach.detail()
    d['wall_s'] = time.time() - t0
    with open(out + '.hashes', 'wb') as f:
        f.write(b''.join(sorted(st.nontrivial_hashes)))
    with open(out, 'w') as f:
        json.dump(d, f, default=repr)


if __name__ == '__main__':
    main(sys.argv[1:])
