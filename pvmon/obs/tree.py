"""Observer of a parsed TeXDocument: depth-first walk (attributes that are nodes
or fragments first, in signature order, then children) that yields marker
words with their ancestor path and checks structural well-formedness on the way."""
import re

MARK_RE = re.compile(r'Wq\d+x')
TEXT, ELEMENT, DOCUMENT, FRAGMENT = 3, 1, 9, 11


class Walk(object):
    def __init__(self, doc, all_chains=False):
        self.doc = doc
        self.all_chains = all_chains      # also check the parent chain of a text node without marker that is the single value of an argument
        self.markers = []          # (marker, path tuple of nodeNames, container node, text node)
        self.problems = []         # (kind, message)
        self.seen = set()
        self.adj = set()           # (container type, child type) adjacencies
        self.nodes = 0
        self.twins = []            # (text of a text node holding a repeated-run probe Zt<n>y, path tuple of nodeNames)

    def problem(self, kind, msg):
        if len(self.problems) < 20:
            self.problems.append((kind, msg))

    def run(self):
        self.visit(self.doc, [])
        return self

    def visit(self, node, path, direct_attr=False):
        nid = id(node)
        if nid in self.seen:
            self.problem('reachable-twice', 'node %r reached a second time via %s' % (_nm(node), '/'.join(_nm(p) for p in path)))
            return
        self.seen.add(nid)
        self.nodes += 1
        nt = node.nodeType
        if nt == TEXT:
            ms = MARK_RE.findall(str(node))
            if 'Zt' in node or 'Zm' in node:
                self.twins.append((str(node), tuple(_nm(p) for p in path)))
            if ms or (self.all_chains and direct_attr):
                self.check_chain(node, path)
            for m in ms:
                self.markers.append((m, tuple(_nm(p) for p in path), path[-1] if path else None, node))
            return
        newpath = path + [node]
        # attributes first (signature order); the 'self' attribute *is* the child list
        attrs = getattr(node, 'attributes', None)
        if attrs:
            for key, value in list(attrs.items()):
                if key == 'self':
                    continue
                self.visit_value(value, newpath)
        for child in list(node.childNodes) if node.hasChildNodes() else []:
            self.adj.add((_kind(node), _kind(child)))
            self.visit(child, newpath)

    def visit_value(self, value, path, direct=True):
        nt = getattr(value, 'nodeType', None)
        if nt is not None and not isinstance(value, str) or nt == TEXT:
            # (an argument whose value is one node -- the * of a starred form, a single token -- is placed in the tree like
            # any other node; lists of raw tokens, such as a column specification, are data and are not)
            self.visit(value, path, direct_attr=direct)
        elif isinstance(value, (list, tuple)):
            for v in value:
                self.visit_value(v, path, False)
        elif isinstance(value, dict):
            for v in value.values():
                self.visit_value(v, path, False)

    def check_chain(self, leaf, path):
        """the parent chain of a text leaf must lead through its actual containers back to the document"""
        chain = []
        n = leaf.parentNode
        guard = 0
        while n is not None and guard < 200:
            chain.append(n)
            n = n.parentNode
            guard += 1
        if guard >= 200:
            self.problem('parent-cycle', 'parent chain of %r does not terminate' % str(leaf))
            return
        if not chain or chain[-1] is not self.doc:
            self.problem('parent-chain', 'parent chain of text %r ends at %s instead of the document (path %s)' % (
                str(leaf)[:30], _nm(chain[-1]) if chain else None, '/'.join(_nm(p) for p in path)))
            return
        # every element container on the path must be in the chain, in order; fragments may be skipped
        want = [p for p in reversed(path) if p.nodeType != FRAGMENT]
        it = iter(chain)
        for w in want:
            for c in it:
                if c is w:
                    break
            else:
                self.problem('parent-chain', 'container %s of text %r is not on its parent chain %s' % (
                    _nm(w), str(leaf)[:30], '/'.join(_nm(c) for c in chain)))
                return
        pathset = set(id(p) for p in path)
        for c in chain:
            if id(c) not in pathset:
                self.problem('parent-chain', 'parent chain of text %r passes through %s which does not contain it (path %s)' % (
                    str(leaf)[:30], _nm(c), '/'.join(_nm(p) for p in path)))
                return


def _nm(n):
    return getattr(n, 'nodeName', None) or type(n).__name__


def _kind(n):
    if n.nodeType == TEXT:
        return '#text'
    return _nm(n)


def structure_problems(doc):
    """sectioning / paragraph nesting rules of C07 on the real tree"""
    from plasTeX.DOM import Node
    out = []
    PAR = Node.PAR_LEVEL
    END = Node.ENDSECTIONS_LEVEL
    stack = [doc]
    while stack:
        n = stack.pop()
        if n.nodeType == TEXT:
            continue
        lvl = getattr(n, 'level', None)
        is_sec = lvl is not None and Node.DOCUMENT_LEVEL < lvl < END and n.nodeType == ELEMENT
        kids = list(n.childNodes) if n.hasChildNodes() else []
        for c in kids:
            if c.nodeType == TEXT:
                if is_sec and str(c).strip():
                    out.append(('section-child', 'section %s holds bare text %r' % (_nm(n), str(c)[:30])))
                continue
            cl = getattr(c, 'level', None)
            c_is_sec = cl is not None and Node.DOCUMENT_LEVEL < cl < END and c.nodeType == ELEMENT
            if c_is_sec and not is_sec and n is not doc and getattr(n, 'level', None) != Node.DOCUMENT_LEVEL:
                out.append(('section-inside-non-section', 'sectioning unit %s (level %s) is a child of %s (level %s)' % (_nm(c), cl, _nm(n), lvl)))
            if is_sec:
                if cl == PAR:
                    pass
                elif cl is not None and lvl < cl < END:
                    pass
                else:
                    out.append(('section-child', '%s (level %s) holds %s (level %s): neither a paragraph nor a strictly deeper sectioning unit' % (_nm(n), lvl, _nm(c), cl)))
            if lvl == PAR and cl == PAR and n.nodeType == ELEMENT:
                out.append(('par-in-par', 'paragraph is a direct child of a paragraph'))
            stack.append(c)
        attrs = getattr(n, 'attributes', None)
        if attrs:
            for k, v in attrs.items():
                if k != 'self' and getattr(v, 'nodeType', None) in (ELEMENT, FRAGMENT) and not isinstance(v, str):
                    stack.append(v)
    return out
