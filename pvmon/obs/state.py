"""Snapshot of interpreter-wide plasTeX state (C17): class-level attributes of every
Macro subclass (by value), renderer mixin residue on Node, cwd, TEXINPUTS,
sys.path.  diff(a, b) names the holders that changed."""
import os, sys


def _val(v):
    if isinstance(v, (int, float, str, bool, type(None))):
        return (type(v).__name__, v if not isinstance(v, float) else repr(v))
    if isinstance(v, (list, tuple)):
        return (type(v).__name__, tuple(_val(x) for x in v))
    if isinstance(v, dict):
        return ('dict', tuple(sorted((str(k), _val(x)) for k, x in v.items())))
    if isinstance(v, type):
        return ('class', v.__module__ + '.' + v.__qualname__)
    return ('obj', type(v).__name__)


SKIP = ('__', '@')
# modules whose tables are caches or logging plumbing by design, and names of counters that are meant to run on
MODULE_SKIP = ('plasTeX.Logging', 'plasTeX.Renderers.', 'plasTeX.Imagers')
GLOBAL_SKIP = ('_cache', 'cache', 'idgen', 'log', 'status', 'deflog', 'envlog', 'mathshiftlog', 'tokenlog', 'macrolog', 'digestlog', 'grouplog')


def all_subclasses(c):
    out, seen, todo = [], set(), [c]
    while todo:
        k = todo.pop()
        for s in k.__subclasses__():
            if s not in seen:
                seen.add(s)
                out.append(s)
                todo.append(s)
    return out


def snapshot():
    import plasTeX
    from plasTeX.DOM import Node
    snap = {}
    for cls in [plasTeX.Macro] + all_subclasses(plasTeX.Macro):
        mod = getattr(cls, '__module__', '') or ''
        # classes created per document (newcommand, newcounter, \\def ...) live in no importable module namespace
        if not mod.startswith('plasTeX.') and mod != 'plasTeX':
            continue
        import importlib
        m = sys.modules.get(mod)
        if m is None:
            continue
        # only classes that are reachable as module attributes or nested in such (shared between documents)
        top = cls.__qualname__.split('.')[0]
        if getattr(m, top, None) is None:
            continue
        key = mod + '.' + cls.__qualname__
        d = {}
        for k, v in vars(cls).items():
            if k.startswith(SKIP) or callable(v) or isinstance(v, (property, classmethod, staticmethod)):
                continue
            if hasattr(v, '__get__') and not isinstance(v, (int, float, str, list, dict, tuple, type(None))):
                continue
            d[k] = _val(v)
        snap[key] = d
    # classes that are no macros (dimen, glue, number, TeX, Tokenizer, Context, ...) and module-level tables of the plasTeX
    # modules: their lists, dictionaries and scalars by value (a table extended in place while a document is read shows here)
    for mname, m in list(sys.modules.items()):
        if m is None or not (mname == 'plasTeX' or mname.startswith('plasTeX.')) or mname.startswith(MODULE_SKIP):
            continue
        gl = {}
        for k, v in list(vars(m).items()):
            if k.startswith('__') or k in GLOBAL_SKIP:
                continue
            if isinstance(v, (list, dict, set, frozenset, tuple, int, float, str, bool)):
                gl[k] = _val(sorted(v, key=repr) if isinstance(v, (set, frozenset)) else v)
            elif isinstance(v, type) and getattr(v, '__module__', None) == mname and not issubclass(v, plasTeX.Macro):
                d = {}
                for k2, v2 in list(vars(v).items()):
                    if k2.startswith(SKIP) or k2 in GLOBAL_SKIP:
                        continue
                    if isinstance(v2, (list, dict, set, frozenset, tuple, int, float, str, bool, type(None))):
                        d[k2] = _val(sorted(v2, key=repr) if isinstance(v2, (set, frozenset)) else v2)
                if d:
                    snap['#class:' + mname + '.' + v.__qualname__] = d
        if gl:
            snap['#module:' + mname] = gl
    snap['#Node'] = {k: ('present', 1) for k in vars(Node) if k in ('renderer', '_mixed_', 'filename', 'url', 'image', 'vectorImage')}
    snap['#process'] = {'cwd': ('str', os.getcwd()), 'TEXINPUTS': ('str', os.environ.get('TEXINPUTS', '<unset>')), 'sys.path': ('tuple', tuple(sys.path))}
    return snap


def diff(a, b):
    """-> list of (holder 'module.Class.attr', before, after) for holders present in both snapshots (or attributes that appeared)"""
    out = []
    for key, da in a.items():
        db = b.get(key)
        if db is None:
            continue
        for k in set(da) | set(db):
            va, vb = da.get(k, ('absent', None)), db.get(k, ('absent', None))
            if va != vb:
                out.append((key + '.' + k, va, vb))
    return sorted(out)
