"""Rendering harness: parse + render a LaTeX source with a real plasTeX renderer
in a per-case temporary directory (removed by the caller as soon as the case is
judged), the way plasTeX.Compile.run does it, and an independent reader of the
output (stdlib html.parser)."""
import os, re, shutil, tempfile, importlib
from html.parser import HTMLParser


def new_config(overrides=None):
    from plasTeX.Config import defaultConfig
    from plasTeX.client import collect_renderer_config
    config = defaultConfig()
    collect_renderer_config(config)
    config['images']['imager'] = 'none'
    config['images']['vector-imager'] = 'none'
    config['general']['copy-theme-extras'] = False
    for (sec, key), val in (overrides or {}).items():
        config[sec][key] = val
    return config


class Rendered(object):
    def __init__(self, outdir, doc, files, tex):
        self.outdir, self.doc, self.files, self.tex = outdir, doc, files, tex

    def cleanup(self):
        shutil.rmtree(self.outdir, ignore_errors=True)


_plain = []


def plain_renderer_class():
    """a renderer of the kind the manual shows as its first example: a Renderer subclass with a `default` function for every
    node and a text hook -- no page templates, no layouts, no themes"""
    if not _plain:
        from plasTeX.Renderers import Renderer as Base

        class PlainRenderer(Base):
            fileExtension = '.html'

            def default(self, node):
                s = ['<%s>' % _tag(node.nodeName)]
                if node.hasAttributes():
                    for key, value in node.attributes.items():
                        if key == 'self' or value is None:
                            continue
                        s.append('<arg-%s>%s</arg-%s>' % (_tag(key), str(value), _tag(key)))
                s.append(str(node))
                s.append('</%s>' % _tag(node.nodeName))
                return '\n'.join(s)

            def textDefault(self, node):
                return node.replace('&', '&amp;').replace('<', '&lt;').replace('>', '&gt;')
        _plain.append(PlainRenderer)
    return _plain[0]


def _tag(name):
    t = re.sub(r'[^A-Za-z0-9]', '-', str(name))
    return t if t[:1].isalpha() else 'x' + t


def render(src, renderer='HTML5', overrides=None, jobname='job', before_parse=None, keep_doc=True):
    """-> Rendered; raises whatever plasTeX raises"""
    import plasTeX
    from plasTeX.TeX import TeX
    base = os.environ.get('PVMON_TMP') or tempfile.gettempdir()
    outdir = tempfile.mkdtemp(prefix='case-', dir=base)
    cwd = os.getcwd()
    if renderer == 'Plain':
        overrides = {k: v for k, v in (overrides or {}).items() if k != ('general', 'theme')}
    config = new_config(overrides)
    config['general']['renderer'] = renderer
    doc = plasTeX.TeXDocument(config=config)
    tex = TeX(doc)
    tex.jobname = jobname
    doc.userdata['jobname'] = jobname
    doc.userdata['working-dir'] = outdir
    if before_parse:
        before_parse(tex, doc)
    tex.input(src)
    tex.jobname = jobname
    try:
        os.chdir(outdir)
        tex.parse()
        R = plain_renderer_class() if renderer == 'Plain' else importlib.import_module('plasTeX.Renderers.' + renderer).Renderer
        r = R()
        r.render(doc)
        files = dict(r.files)
    finally:
        os.chdir(cwd)
    return Rendered(outdir, doc, files, tex)


def render_again(prev_src, prev_overrides, src, renderer='HTML5', overrides=None, jobname='job'):
    """The way the command-line program works on an edited document: an earlier edition (prev_src, possibly under other
    settings) was compiled in the working directory and left <jobname>.paux behind; now src is compiled there by
    plasTeX.Compile.parse and rendered into a fresh output directory.  -> Rendered for the second run."""
    import plasTeX
    from plasTeX import Compile
    base = os.environ.get('PVMON_TMP') or tempfile.gettempdir()
    work = tempfile.mkdtemp(prefix='case-', dir=base)
    cwd = os.getcwd()
    try:
        os.chdir(work)
        for k, (text, ov) in enumerate(((prev_src, prev_overrides), (src, overrides))):
            with open(jobname + '.tex', 'w', encoding='utf-8') as f:
                f.write(text)
            config = new_config(ov)
            config['general']['renderer'] = renderer
            config['files']['log'] = False
            tex = Compile.parse(jobname + '.tex', config)
            doc = tex.ownerDocument
            outdir = os.path.join(work, 'out%d' % k)
            os.makedirs(outdir)
            os.chdir(outdir)
            try:
                r = Compile.load_renderer(renderer, config)
                r.render(doc)
                files = dict(r.files)
            finally:
                os.chdir(work)
            if k == 0:
                from .. import common
                common.plastex_reset()
    finally:
        os.chdir(cwd)
    out = Rendered(outdir, doc, files, tex)
    out.workdir = work
    out.cleanup = lambda: shutil.rmtree(work, ignore_errors=True)
    return out


VOID = set('area base br col embed hr img input link meta param source track wbr'.split())


class Page(HTMLParser):
    """independent reading of one output file"""

    def __init__(self, text):
        HTMLParser.__init__(self, convert_charrefs=True)
        self.texts = []           # (text, tuple(open tags))
        self.elements = []        # (tag, dict(attrs), tuple(open tags))
        self.stack = []
        self.ids = []
        self.hrefs = []           # (href, link text collector index)
        self.comments = []
        self.decls = []
        self._a = []              # open <a> collectors
        self.links = []           # dict(href, text, attrs, context)
        self.events = []          # document order: ('text', str) | ('a', link dict)
        self.feed(text)
        self.close()

    def handle_starttag(self, tag, attrs):
        d = dict(attrs)
        self.elements.append((tag, d, tuple(self.stack)))
        if 'id' in d and d['id'] is not None:
            self.ids.append(d['id'])
        if tag == 'a' and d.get('name'):
            self.ids.append(d['name'])
        if tag == 'a' and 'href' in d:
            link = {'href': d['href'], 'text': '', 'attrs': d, 'context': tuple(self.stack)}
            self.links.append(link)
            self._a.append(link)
            self.events.append(('a', link))
        elif tag == 'link' and 'href' in d:
            self.links.append({'href': d['href'], 'text': '', 'attrs': d, 'context': tuple(self.stack), 'rel': d.get('rel')})
        if tag not in VOID:
            self.stack.append(tag)

    def handle_startendtag(self, tag, attrs):
        self.handle_starttag(tag, attrs)
        if tag not in VOID and self.stack and self.stack[-1] == tag:
            self.stack.pop()

    def handle_endtag(self, tag):
        if tag == 'a' and self._a:
            self._a.pop()
        if tag in self.stack:
            while self.stack and self.stack[-1] != tag:
                self.stack.pop()
            self.stack.pop()

    def handle_data(self, data):
        self.texts.append((data, tuple(self.stack)))
        self.events.append(('text', data))
        for a in self._a:
            a['text'] += data

    def handle_comment(self, data):
        self.comments.append(data)

    def handle_decl(self, decl):
        self.decls.append(decl)

    def text_outside(self, skip=('head', 'nav', 'script', 'style', 'title')):
        return ''.join(t for t, st in self.texts if not any(s in skip for s in st))

    def inventory(self):
        inv = set()
        for tag, d, st in self.elements:
            inv.add(tag)
            for k in d:
                inv.add(tag + '@' + k)
        return inv


def read_output(outdir, encoding='utf-8', also=()):
    """-> {filename: text} for the html/xhtml files in the output directory, and for the files named in `also`
    (names issued by the renderer need not end in .html: a label such as `f001.html` in `$id-$num` gives `f001.html-02`)"""
    out = {}
    also = set(also)
    for root, dirs, files in os.walk(outdir):
        for f in files:
            p = os.path.join(root, f)
            rel = os.path.relpath(p, outdir)
            if f.endswith(('.html', '.xhtml', '.htm')) or rel in also:
                with open(p, 'rb') as fh:
                    out[rel] = fh.read().decode(encoding, 'replace')
    return out


IDGEN_RE = re.compile(r'\ba(\d{10})\b')


def canon_ids(text, table=None):
    """rename generated identifiers a\\d{10} in order of first appearance (the generator is interpreter-wide)"""
    table = {} if table is None else table

    def sub(m):
        k = m.group(0)
        if k not in table:
            table[k] = 'GENID%d' % (len(table) + 1)
        return table[k]
    return IDGEN_RE.sub(sub, text)
