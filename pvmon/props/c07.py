"""C07 -- parsing loses, duplicates or reorders no text and yields a well-formed tree.

Monitor: every text leaf of a generated document is a unique marker word;
conservation and order are checked offline over the depth-first walk of the
real tree (every marker exactly once, in source order) together with the
structural invariants of the statement (reachability once, parent chains
through the actual containers, sectioning/paragraph nesting, typographic
substitutions in running text but not in verbatim/math)."""
import re, traceback
from .. import common
from ..gen import docs
from ..obs.tree import Walk, structure_problems, MARK_RE

PROP = 'C07'
LEVEL = 'exploration'
RULE = ('documents of the generated grammar (article/book; sectioning to 4 levels incl. starred and skipped levels; paragraphs; font commands '
        'and declarations; nested itemize/enumerate/description; tabulars with \\multicolumn; quote/center/quotation/flushleft; footnotes; '
        '\\mbox/\\fbox; inline and display math; equation; verbatim and \\verb; figure/table floats with captions; theorem environments; labels '
        'and references; typographic probes) nested to depth 3-4, 5-150 marker words each.  Non-trivial = >= 10 markers and >= 1 section or '
        'environment; distinct by document text.')
ASSUMPTIONS = ['ground truth by construction (pvmon/gen/docs.py): marker order = depth-first, arguments before content',
               'generated documents are well-formed LaTeX (sectioning at top level only, balanced groups, no fragile commands in arguments)']
DECIDING_REACH = ['TeX.parse', 'Macro.paragraphs', 'Environment.digest', 'SectionUtils.digest', 'Node.normalize']
DECIDING_COUNTERS = {'markers_compared': 1000, 'repeated_runs_checked': 50, 'nested_mode_probes': 50}


def budget(tier):
    return {'n': 1600 if tier == 'quick' else 30000, 'case_timeout': 60}


def setup(st):
    pass


def anchors():
    import plasTeX
    from plasTeX.TeX import TeX
    from plasTeX.Base.LaTeX.Sectioning import SectionUtils
    from plasTeX.Base.TeX.Text import bgroup
    from plasTeX.DOM import Node
    return {'TeX.parse': TeX.parse, 'Macro.digest': plasTeX.Macro.digest, 'Macro.digestUntil': plasTeX.Macro.digestUntil, 'Macro.paragraphs': plasTeX.Macro.paragraphs,
            'Environment.digest': plasTeX.Environment.digest, 'SectionUtils.digest': SectionUtils.digest, 'bgroup.digest': bgroup.digest,
            'Node.normalize': Node.normalize, 'Node.appendText': Node.appendText, 'TeX.expandTokens': TeX.expandTokens,
            'NoCharSubEnvironment.normalize': plasTeX.NoCharSubEnvironment.normalize}


TWIN_BODIES = ['Zt%dy--z', 'Zt%dy---z', "Zt%dy's", "``Zt%dy''", 'a--Zt%dy', "Zt%dy"]
SUBS = [('``', chr(8220)), ("''", chr(8221)), ('"`', chr(8222)), ('"\'', chr(8220)), ('`', chr(8216)), ("'", chr(8217)), ('---', chr(8212)), ('--', chr(8211))]


def subst(t):
    for a, b in SUBS:
        t = t.replace(a, b)
    return t


def twins(r):
    """The same run of characters once as running text and once as verbatim/mathematics (each a complete text node):
    -> (body_prefix, body_suffix, [[run, expected running text, expected literal, literal form]])"""
    pre, suf, exp = '', '', []
    for k in range(r.choice([1, 1, 2])):
        body = r.choice(TWIN_BODIES) % (k + 1)
        lit_form = r.choice(['verb', 'verb', 'math', 'verbatim']) if "'" not in body and '`' not in body else r.choice(['verb', 'verb', 'verbatim'])
        running = '\\%s{%s}' % (r.choice(['emph', 'textbf', 'mbox', 'textit']), body)
        lit = {'verb': '\\verb|%s|' % body, 'math': '$%s$' % body, 'verbatim': '\n\\begin{verbatim}\n%s\n\\end{verbatim}\n' % body}[lit_form]
        place = r.choice(['run-first-same-par', 'lit-first-same-par', 'run-in-prefix', 'lit-in-prefix'])
        if place == 'run-first-same-par':
            pre += 'T %s T %s T\n\n' % (running, lit)
        elif place == 'lit-first-same-par':
            pre += 'T %s T %s T\n\n' % (lit, running)
        elif place == 'run-in-prefix':
            pre += 'T %s T\n\n' % running
            suf += '\n\nT %s T\n' % lit
        else:
            pre += 'T %s T\n\n' % lit
            suf += '\n\nT %s T\n' % running
        exp.append([body, subst(body), body, lit_form, place])
    return pre, suf, exp


def cases(seed, tier, shard, nshards):
    for i in common.sharded(budget(tier)['n'], shard, nshards):
        r = common.rng_for(seed, PROP, i)
        d = docs.gen(r, grouped_heads=r.choice([0, 0, 0.2]), probes=True, deep6=True, depth=r.choice([2, 3, 3, 4]), parts=False, eqnarray=r.random() < 0.3, maxsec=r.choice([3, 6, 10]),
                     title_footnotes=r.choice([0, 0.5]))
        tight = r.random() < 0.3
        pre, suf, tw = twins(r) if r.random() < 0.4 else ('', '', [])
        # the innermost mode decides: mathematics inside a text box is mathematics, a text box inside mathematics is running text
        mp = []
        if r.random() < 0.3:
            for q in range(r.choice([1, 2])):
                body = r.choice(["Zm%dy--z", "Zm%dy---z", "Zm%dy''s"]) % (q + 1)
                box = r.choice(['textbf', 'mbox', 'textit', 'emph'])
                if r.random() < 0.5:
                    grp = r.choice(['{%s}', 'x^{%s}', '\\frac{%s}{2}'])
                    pre += 'T \\%s{T $%s$ T} T\n\n' % (box, grp % body.replace("''", '--'))
                    mp.append(['Zm%dy' % (q + 1), body.replace("''", '--'), 'mathematics in \\%s' % box])
                else:
                    pre += 'T $a \\mbox{%s} b$ T\n\n' % body
                    mp.append(['Zm%dy' % (q + 1), subst(body), 'a text box in mathematics'])
        if r.random() < 0.2:
            # three levels: a text box in mathematics in a text box; what follows the formula in the outer box is running text again,
            # and the next formula of the document is mathematics
            box = r.choice(['textbf', 'mbox', 'textit'])
            pre += 'T \\%s{T $a \\mbox{T} b$ Zm7y---z} T\n\nT ${Zm8y--z}$ T\n\n' % box
            mp.append(['Zm7y', subst('Zm7y---z'), 'running text after mathematics that holds a box, inside \\%s' % box])
            mp.append(['Zm8y', 'Zm8y--z', 'mathematics in the paragraph after such a box'])
        if r.random() < 0.2:
            # a size or font declaration that is still in force when the next heading arrives (no group around it)
            pre += '%s T T\n\n' % r.choice(['\\small', '\\bfseries', '\\itshape', '\\small\\bfseries'])
        yield {'src': docs.latex(d, body_prefix=pre, body_suffix=suf, tight=tight), 'order': docs.markers(d), 'probes': probes_of(d), 'verbs': verbs_of(d), 'cls': d['cls'],
               'twins': tw, 'modeprobes': mp}


def probes_of(d):
    out = []

    def f(n):
        if n.get('t') == 'text' and n.get('probe'):
            out.append([n['probe'], n['words']])
    docs.walk(d, f)
    return out


def verbs_of(d):
    out = []

    def f(n):
        if n.get('t') in ('verb', 'verbatim'):
            out.append(n['body'])
    docs.walk(d, f)
    return out


def parse(src):
    from plasTeX.TeX import TeX
    common.plastex_reset()
    tex = TeX()
    tex.input(src)
    return tex.parse()


def run(case, st):
    src = case['src']
    try:
        doc = parse(src)
    except common.CaseTimeout:
        raise
    except Exception as e:
        st.violation('parse-raises-' + type(e).__name__, case, 'document raised %s\n%s' % (traceback.format_exc()[-500:], src[:1500]))
        return {'nontrivial': True}
    finally:
        common.plastex_reset()
    w = Walk(doc, all_chains=True).run()
    got = [m[0] for m in w.markers]
    want = case['order']
    st.counters['markers_compared'] += len(want)
    for a in w.adj:
        st.feature('adjacency', '%s>%s' % a)
    bad = []
    if got != want:
        from collections import Counter
        cg, cw = Counter(got), Counter(want)
        lost = [m for m in want if cg[m] == 0]
        dup = [m for m in cg if cg[m] > 1]
        extra = [m for m in got if cw[m] == 0]
        if lost:
            bad.append(('lost-text', 'markers lost: %s' % lost[:6] + where(w, want, lost[0], src)))
        if dup:
            bad.append(('duplicated-text', 'markers duplicated: %s (paths %s)' % (dup[:6], [m[1] for m in w.markers if m[0] == dup[0]])))
        if extra:
            bad.append(('invented-text', 'markers not in the source: %s' % extra[:6]))
        if not (lost or dup or extra):
            k = 0
            while got[k] == want[k]:
                k += 1
            bad.append(('reordered-text', 'order differs at %d: expected %s, tree has %s (path %s)' % (k, want[k:k + 4], got[k:k + 4], w.markers[k][1])))
    for kind, msg in w.problems:
        bad.append((kind, msg))
    for kind, msg in structure_problems(doc)[:5]:
        bad.append((kind, msg))
    # typographic substitutions
    text_of = {}
    for m, path, cont, node in w.markers:
        text_of[m] = str(node)
    for kind, words in case['probes']:
        t = text_of.get(words[0])
        if t is None:
            continue
        if kind == 'quote':
            i = t.find(words[0])
            tl = text_of.get(words[-1], '')
            j = tl.find(words[-1]) + len(words[-1])
            if not (i > 0 and t[i - 1] == '“') or not (tl[j:j + 1] == '”'):
                bad.append(('charsub-missing', 'quotes around %s not substituted: %r' % (words, t[max(0, i - 3):i + 12])))
        else:
            want_ch = '—' if kind == 'emdash' else '–'
            i = t.find(words[0]) + len(words[0])
            if t[i:i + 1] != want_ch:
                bad.append(('charsub-missing', '%s after %s not substituted: %r' % (kind, words[0], t[i - 6:i + 6])))
    whole = doc.textContent
    for body in case['verbs']:
        if ('--' in body or '``' in body or "''" in body) and body not in whole:
            bad.append(('charsub-in-verbatim', 'verbatim material %r not found literally in the document text' % body))
    # the same run of characters as running text and as verbatim/mathematics
    for body, want_run, want_lit, form, place in case.get('twins', []):
        tag = body[:body.index('y') + 1].lstrip('`').replace('a--', '')
        hits = [(t, p) for t, p in w.twins if tag in t]
        st.counters['repeated_runs_checked'] += 1
        st.feature('repeated-run', '%s/%s' % (form, place))
        lits = [(t, p) for t, p in hits if any(x in ('verb', 'verbatim', 'math') for x in p)]
        runs = [(t, p) for t, p in hits if (t, p) not in lits]
        if len(lits) != 1 or len(runs) != 1:
            bad.append(('repeated-run-not-found', 'run %r: %d literal and %d running text nodes (%r)' % (body, len(lits), len(runs), hits[:4])))
            continue
        if lits[0][0].strip() != want_lit:
            bad.append(('charsub-in-verbatim', '%s material %r reads %r in the tree (the same run occurs as running text; %s)' % (form, body, lits[0][0], place)))
        if runs[0][0] != want_run:
            bad.append(('charsub-missing', 'running text %r reads %r instead of %r (the same run occurs as %s material; %s)' % (body, runs[0][0], want_run, form, place)))
    for tag, want_txt, what in case.get('modeprobes', []):
        st.counters['nested_mode_probes'] += 1
        hits = [t for t, p in w.twins if tag in t]
        if len(hits) != 1:
            bad.append(('repeated-run-not-found', 'probe %s (%s): %d text nodes' % (tag, what, len(hits))))
        elif hits[0].strip() != want_txt:
            bad.append(('charsub-in-verbatim' if 'mathematics in' in what else 'charsub-missing', '%s: written/expected %r, the tree has %r' % (what, want_txt, hits[0])))
    for kind, msg in bad[:4]:
        st.violation(kind, case, msg + '\n' + src[:1200])
    if len(doc.context.contexts) != 1:
        st.violation('context-depth', case, 'context depth %d after the document' % len(doc.context.contexts))
    nt = len(want) >= 10 and ('\\section' in src or '\\begin{' in src.replace('\\begin{document}', ''))
    return {'nontrivial': nt, 'sample': {'src': src[:600], 'markers': len(want)}}


def where(w, want, m, src):
    i = src.find(m)
    return ' (source context: %r)' % src[max(0, i - 60):i + 30]
