"""C05 -- arguments are delimited, typed and bound as the macro's signature declares.

Three monitors.
(a) signatures: a signature AST is printed in plasTeX's `args` mini-language, a
    Command subclass with it is registered in a fresh document, a conforming
    invocation is printed from a value AST and parsed; the bound attributes,
    the text that follows the invocation and argSource are compared with the
    value AST (ground truth by construction).
(b) numeric scanners: literal ASTs (sign runs, radix, fractions, units, 'true',
    fil orders, register multiples) printed and scanned by the real
    readInteger / readDecimal / readDimen / readGlue; value (exact Fraction
    arithmetic, NF-11 tolerance) and the unread remainder are compared.
(c) invariant at a hook: wrappers on ParameterCommand.enable/disable keep a
    shadow counter; after every case _enablelevel == 0 and enabled is True.
"""
import re, traceback
from fractions import Fraction
from .. import common
from ..instrument import wrap
from ..reftex import lexer as L
from ..gen.conds import PT

PROP = 'C05'
LEVEL = 'exploration'
RULE = ('(a) signatures of 1-6 arguments (star; optional [] () <>; mandatory; types untyped/str/int/float/dimen/list(delims , ; | with subtypes)/'
        'dict/Tok/nox/cs and raw Number/Dimen/Glue in last position) x conforming calls (optionals present/absent, nested {} and [] in values, '
        'brace-hidden closing brackets, blanks between arguments) followed by a sentinel; (b) integer/decimal/dimension/glue literals over sign '
        'runs, decimal/octal/hex/character constants, . and , fractions, optional spaces, true, 11 units in mixed case, 3 fil orders, register '
        'multiples, followed by hostile next tokens.  Non-trivial = (a) >= 2 arguments bound, (b) a literal with a sign run, radix, fraction or '
        'unit; distinct by content hash.')
ASSUMPTIONS = ['ground truth by construction from the value/literal AST, exact Fraction arithmetic',
               'NF-11: dimensions compared with tolerance 2sp + 1e-9 relative; em/ex judged on linearity only',
               'raw Number/Dimen/Glue argument types are generated only in last position and terminated by \\relax']
DECIDING_HOOKS = ['ParameterCommand.enable', 'ParameterCommand.disable']
DECIDING_REACH = ['TeX.readArgumentAndSource', 'TeX.readInteger', 'TeX.readDimen', 'TeX.readGlue', 'Macro.parse']


def budget(tier):
    q = tier == 'quick'
    return {'n_sig': 4000 if q else 80000, 'n_lit': 20000 if q else 400000, 'case_timeout': 20}


_shadow = {'level': 0}
_snap = None


def setup(st):
    global _snap
    import plasTeX
    PC = plasTeX.ParameterCommand
    oe, od = PC.__dict__['enable'].__func__, PC.__dict__['disable'].__func__

    def enable(cls):
        st.hooks['ParameterCommand.enable'] += 1
        _shadow['level'] += 1
        return oe(cls)

    def disable(cls):
        st.hooks['ParameterCommand.disable'] += 1
        _shadow['level'] -= 1
        return od(cls)
    PC.enable = classmethod(enable)
    PC.disable = classmethod(disable)
    _snap = common.ClassAttrSnapshot().take()


def anchors():
    import plasTeX
    from plasTeX.TeX import TeX
    return {'Macro.parse': plasTeX.Macro.parse, 'Macro.arguments': plasTeX.Macro.__dict__['arguments'], 'TeX.readArgumentAndSource': TeX.readArgumentAndSource,
            'TeX.readToken': TeX.readToken, 'TeX.readCharacter': TeX.readCharacter, 'TeX.readGrouping': TeX.readGrouping, 'TeX.cast': TeX.cast,
            'TeX.castString': TeX.castString, 'TeX.castNumber': TeX.castNumber, 'TeX.castDecimal': TeX.castDecimal, 'TeX.castDimen': TeX.castDimen,
            'TeX.castList': TeX.castList, 'TeX.castDictionary': TeX.castDictionary, 'TeX.normalize': TeX.normalize, 'TeX.readOptionalSigns': TeX.readOptionalSigns,
            'TeX.readInteger': TeX.readInteger, 'TeX.readDecimal': TeX.readDecimal, 'TeX.readDimen': TeX.readDimen, 'TeX.readUnitOfMeasure': TeX.readUnitOfMeasure,
            'TeX.readKeyword': TeX.readKeyword, 'TeX.readGlue': TeX.readGlue, 'TeX.readStretch': TeX.readStretch, 'TeX.readShrink': TeX.readShrink,
            'dimen.__new__': plasTeX.dimen.__new__}


# ---------------------------------------------------------------------------
# (b) literals

UNITS = ['pt', 'pc', 'in', 'bp', 'cm', 'mm', 'dd', 'cc', 'sp', 'em', 'ex']
TAILS = ['', 'x', ' x', '\\relax ', '{a}', '.', ';', 'q', ' 9', '\\zqfoo ', 'e', ' -', ' pt']


def gen_signs(r):
    k = r.random()
    if k < 0.5:
        return '', 1
    s = ''
    sign = 1
    for _ in range(r.randint(1, 4)):
        c = r.choice('+-')
        if c == '-':
            sign = -sign
        s += c + r.choice(['', '', ' '])
    return s, sign


def gen_int(r):
    """-> text (without tail), value, feature, forbidden first characters of the tail"""
    signs, sign = gen_signs(r)
    k = r.random()
    if k < 0.45:
        v = r.choice([0, 1, 7, 12, 99, 255, 4096, 65535, 1234567])
        body, feat, forb = str(v), 'dec', '0123456789'
        if r.random() < 0.2:
            body = '00' + body
    elif k < 0.62:
        v = r.choice([0, 7, 8, 63, 511, 4095])
        body, feat, forb = "'%o" % v, 'oct', '01234567'
    elif k < 0.8:
        v = r.choice([0, 10, 15, 16, 255, 4095, 65535, 48879])
        body, feat, forb = '"%X' % v, 'hex', '0123456789ABCDEF'
    else:
        c = r.choice(['a', 'A', '0', '\\a', '\\%', '\\{', '\\\\', '\\~', '*', 'é'])
        v = ord(c[-1])
        body, feat, forb = '`' + c, 'chr', ('abcdefghijklmnopqrstuvwxyzABCDEFGHIJKLMNOPQRSTUVWXYZ' if c == '\\a' else '')
    return signs + body, sign * v, feat + ('+signs' if signs else ''), forb


def gen_decimal_text(r):
    whole = r.choice(['0', '1', '2', '3', '10', '12', '72', '100', ''])
    sep = r.choice(['.', '.', ','])
    frac = r.choice(['', '', '5', '25', '0', '125', '333', '05', '007', '50', '090'])        # (also fractions that begin or end with zeros)
    if not whole and not frac:
        frac = '5'
    if frac or r.random() < 0.2:
        txt = whole + sep + frac
        feat = 'fraction' + (',' if sep == ',' else '') + ('-noint' if not whole else '') + ('-nofrac' if not frac else '')
    else:
        txt = whole
        feat = 'integer-coefficient'
    val = Fraction(int(whole or '0')) + (Fraction(int(frac), 10 ** len(frac)) if frac else 0)
    return txt, val, feat


def gen_dimen(r, fil=False):
    """-> text, value in pt (Fraction) or (value, order) for fil, feature"""
    signs, sign = gen_signs(r)
    txt, val, feat = gen_decimal_text(r)
    if fil:
        order = r.choice([1, 2, 3])
        unit = 'fil' + 'l' * (order - 1)
        sp = r.choice(['', ' '])
        return signs + txt + sp + unit, (sign * val, order), 'fil%d/%s' % (order, 'unit-coeff' if val == 1 else 'other-coeff')
    unit = r.choice(UNITS)
    utxt = unit
    k = r.random()
    if k < 0.15:
        utxt = unit.upper()
        feat += '/uppercase-unit'
    elif k < 0.25:
        utxt = unit[0].upper() + unit[1]
    true = ''
    if r.random() < 0.15 and unit not in ('em', 'ex'):
        true = r.choice(['true', 'true ', 'TRUE'])
        feat += '/true'
    sp = r.choice(['', '', ' ', '  '])
    text = signs + txt + sp + true + utxt
    if unit in ('em', 'ex'):
        return text, ('font', unit, sign * val), feat + '/' + unit
    return text, sign * val * PT[unit], feat + '/' + unit + ('+signs' if signs else '')


def gen_literal(r):
    k = r.random()
    tail = r.choice(TAILS)
    if k < 0.35:
        text, val, feat, forb = gen_int(r)
        while tail[:1] and tail[0] in forb:
            tail = r.choice(TAILS)
        sp = r.choice(['', ' ']) if not tail.startswith(' ') else ''
        return {'kind': 'int', 'text': text + sp, 'tail': tail, 'value': val, 'feat': feat}
    if k < 0.45:
        signs, sign = gen_signs(r)
        txt, val, feat = gen_decimal_text(r)
        while tail[:1] in tuple('0123456789.,'):
            tail = r.choice(TAILS)
        return {'kind': 'decimal', 'text': signs + txt, 'tail': tail, 'value': [(sign * val).numerator, (sign * val).denominator], 'feat': feat}
    if k < 0.75:
        if r.random() < 0.2:
            # register multiple: coefficient x \parindent (set to a known value by the harness)
            signs, sign = gen_signs(r)
            coef_txt, coef, feat = ('', Fraction(1), 'bare-register') if r.random() < 0.4 else gen_decimal_text(r)
            reg = r.choice([20, 15, 10])
            v = sign * coef * reg
            gap = r.choice(['', '', ' ', '  ']) if coef_txt else ''        # optional spaces may stand between the factor and the register
            if gap:
                feat += '/space-before-register'
            return {'kind': 'dimen', 'text': signs + coef_txt + gap + '\\parindent ', 'tail': r.choice(['', 'x', '\\relax ']), 'value': [v.numerator, v.denominator],
                    'reg': reg, 'feat': 'register-multiple/' + feat}
        text, val, feat = gen_dimen(r)
        while tail[:1] == 'l' or tail.lstrip()[:2] in ('pt',) and False:
            tail = r.choice(TAILS)
        sp = r.choice(['', ' ']) if not tail.startswith(' ') else ''
        if isinstance(val, tuple):
            return {'kind': 'dimen', 'text': text + sp, 'tail': tail, 'font': [val[1], val[2].numerator, val[2].denominator], 'feat': feat}
        return {'kind': 'dimen', 'text': text + sp, 'tail': tail, 'value': [val.numerator, val.denominator], 'feat': feat}
    # glue
    text, val, feat = gen_dimen(r)
    while isinstance(val, tuple):
        text, val, feat = gen_dimen(r)
    out = {'kind': 'glue', 'value': [val.numerator, val.denominator], 'feat': 'glue:' + feat}
    t = text
    for comp in ('plus', 'minus'):
        if r.random() < 0.6:
            if r.random() < 0.5:
                ct, cv, cf = gen_dimen(r, fil=True)
                out[comp] = ['fil', cv[0].numerator, cv[0].denominator, cv[1]]
            else:
                ct, cv, cf = gen_dimen(r)
                while isinstance(cv, tuple):
                    ct, cv, cf = gen_dimen(r)
                out[comp] = ['dim', cv.numerator, cv.denominator, 0]
            out['feat'] += '/%s:%s' % (comp, cf)
            t += r.choice([' ', '', '  ']) + comp + r.choice([' ', '', ' ']) + ct
    tail = r.choice(['', 'x', ' x', '\\relax ', '{a}', ';', ' q'])
    sp = r.choice(['', ' ']) if not tail.startswith(' ') else ''
    out['text'] = t + sp
    out['tail'] = tail
    return out


# ---------------------------------------------------------------------------
# (a) signatures

WORDS = ['Wa', 'Wb', 'Wc', 'Wd', 'We', 'Wf', 'Wg']


def gen_text(r, closer=None, depth=0):
    """free text value with optional nested groups; `closer`: bracket pair that must stay balanced"""
    parts = []
    for _ in range(r.randint(1, 3)):
        k = r.random()
        if k < 0.55 or depth > 1:
            parts.append(r.choice(WORDS))
        elif k < 0.75:
            parts.append('{' + gen_text(r, closer, depth + 1)[0] + '}')
        elif closer and k < 0.85:
            parts.append(closer[0] + r.choice(WORDS) + closer[1])          # nested brackets
        elif closer and k < 0.95:
            parts.append('{' + closer[1] + r.choice(WORDS) + '}')           # closing bracket hidden in braces
        else:
            parts.append(r.choice(WORDS))
    s = ' '.join(parts)
    e = re.sub(r'[{}\s]', '', s)
    if r.random() < 0.12 and depth == 0:
        # a comment inside the argument: everything through the end of the line is dropped
        s = s + '%Wz\n' + 'Wg'
        e = e + 'Wg'
    return s, e


def _pad(r, txt):
    """a numeric value as authors write it inside its braces or brackets: sometimes with a blank before or after it"""
    k = r.random()
    if k < 0.15:
        return txt + ' '
    if k < 0.25:
        return ' ' + txt + ' '
    if k < 0.3:
        return ' ' + txt
    return txt


def gen_value(r, typ, closer=None):
    """-> (source text inside the delimiters, expected normal form, feature)"""
    if typ is None:
        s, e = gen_text(r, closer)
        feat = 'untyped' + ('/hidden-bracket' if closer and ('{' + closer[1]) in s else '') + ('/nested-bracket' if closer and closer[0] in s else '')
        return s, ['text', e], feat
    if typ == 'url':
        u = r.choice(['a#b~c%d&e', 'http://x.org/~u/?q=1&r=2#f', 'Wa%Wb'])
        return u, ['text', u], 'url'
    if typ == 'str':
        k = r.random()
        if k < 0.25:
            return 'Wa{Wb}Wc', ['str', 'WaWbWc'], 'str/inner-group'
        if k < 0.4:
            # the whole value is one group of its own (protecting a comma, a bracket), or an empty one
            return r.choice([('{WaWb}', ['str', 'WaWb'], 'str/whole-value-a-group'), ('{Wa,Wb}', ['str', 'Wa,Wb'], 'str/whole-value-a-group'),
                             ('{}', ['str', ''], 'str/whole-value-an-empty-group')])
        s = ' '.join(r.choice(WORDS) for _ in range(r.randint(1, 3)))
        return s, ['str', s.replace(' ', '')], 'str'
    if typ in ('int', 'number', 'count'):
        v = r.choice([0, 1, -1, 12, -12, 255, 1000])
        txt = str(v)
        if r.random() < 0.2 and v >= 0:
            txt = r.choice(["'%o" % v, '"%X' % v])
        return _pad(r, txt), ['int', v], typ
    if typ in ('float', 'double'):
        txt = r.choice(['1.5', '0.25', '-2.5', '3', '.5', '10.0', '2', '-3'])
        return _pad(r, txt), ['float', float(txt)], typ
    if typ in ('dimen', 'length', 'dimension'):
        u = r.choice(['pt', 'cm', 'mm', 'in', 'pc', 'bp'])
        n = r.choice(['1', '1.5', '0.5', '-2', '10'])
        v = Fraction(n) * PT[u]
        return _pad(r, n + u), ['dimen', v.numerator, v.denominator], typ
    if typ.startswith('list'):
        delim = typ[5] if '(' in typ else ','
        sub = typ.split(':')[1] if ':' in typ else None
        n = r.randint(1, 4)
        if sub == 'int':
            items = [str(r.choice([0, 1, 2, 10, -3])) for _ in range(n)]
            return delim.join(items), ['list', [int(x) for x in items]], 'list(%s):int' % delim
        items = []
        exp = []
        for _ in range(n):
            if r.random() < 0.25:
                w1, w2 = r.choice(WORDS), r.choice(WORDS)
                items.append('{' + w1 + delim + w2 + '}')       # delimiter protected by braces
                exp.append(w1 + delim + w2)
            else:
                w = r.choice(WORDS)
                items.append(w)
                exp.append(w)
        sp = r.choice(['', ' '])
        return (delim + sp).join(items), ['list', exp], 'list(%s)' % delim + ('/braced-item' if any('{' in i for i in items) else '')
    if typ == 'dict':
        n = r.randint(1, 3)
        items, exp = [], {}
        for i in range(n):
            k = 'k' + 'abc'[i]
            q = r.random()
            if q < 0.6:
                v = r.choice(WORDS)
                items.append('%s=%s' % (k, v))
                exp[k] = v
            elif q < 0.8:
                v1, v2 = r.choice(WORDS), r.choice(WORDS)
                items.append('%s={%s,%s}' % (k, v1, v2))
                exp[k] = v1 + ',' + v2
            elif q < 0.9:
                items.append(k)
                exp[k] = True
            else:
                # "key=" with nothing after the sign: the empty value, not a flag
                items.append(k + r.choice(['=', '=', '={}']))
                exp[k] = ''
        return (',' + r.choice(['', ' '])).join(items), ['dict', exp], 'dict' + ('/empty-value' if '' in exp.values() else '')
    if typ == 'nox':
        s = r.choice(['\\zqfoo Wa', 'Wa{Wb}', '\\zqfoo{\\zqbar Wc}Wd', 'Wa Wb'])
        return s, ['source', re.sub(r'\s', '', s)], 'nox'
    raise ValueError(typ)


TYPES = [None, None, 'str', 'str', 'int', 'number', 'float', 'dimen', 'length', 'list', 'list(;)', 'list(|)', 'list:int', 'list(;):int', 'dict', 'nox']


def gen_sig(r):
    if r.random() < 0.04:
        # the \openout form: control sequence, optional equals, value up to the next blank
        w = r.choice(WORDS)
        eq = r.choice(['=', ' = ', ' '])
        return {'kind': 'sig', 'sig': 'a:cs = b:any', 'call': '\\zqfoo' + eq + w + ' ', 'expect': {'a': ['source', '\\zqfoo'], 'b': ['text', w]},
                'feats': ['cs', 'equals', 'any']}
    nargs = r.choice([1, 2, 2, 3, 3, 4, 5, 6])
    sig = []
    call = ''
    expect = {}
    feats = []
    names = iter('abcdefgh')
    kn = r.random()
    if kn < 0.2:
        # names that are the concatenation of two names other signatures use side by side ('ab c' next to 'a b c': only the blank tells
        # them apart)
        names = iter([['ab', 'c', 'd', 'e', 'f', 'g', 'h', 'i'], ['a', 'bc', 'd', 'e', 'f', 'g', 'h', 'i'], ['abc', 'd', 'e', 'f', 'g', 'h', 'i', 'j']][int(kn * 15)])
        feats.append('names-that-concatenate-other-names')
    if r.random() < 0.3:
        sig.append('*')
        if r.random() < 0.5:
            call += '*'
            expect['*modifier*'] = ['tok', '*']
        else:
            expect['*modifier*'] = None
        feats.append('star')
        nargs -= 1
    pending_absent = set()      # bracket kinds of the absent optionals since the last bound argument
    for i in range(max(1, nargs)):
        name = next(names)
        last = (i == max(1, nargs) - 1)
        k = r.random()
        sp = r.choice(['', '', ' '])
        if k < 0.35:
            br = r.choice(['[]', '[]', '()', '<>'])
            typ = r.choice([None, None, 'str', 'int', 'dimen', 'list', 'dict', 'url'])
            spec = '%s %s%s %s' % (br[0], name, (':' + typ) if typ else '', br[1])
            sig.append(spec)
            present = r.random() < 0.6 and br not in pending_absent
            if present:
                src, exp, f = gen_value(r, typ, closer=br)
                if typ in ('list', 'dict', 'str', 'int', 'dimen') and False:
                    pass
                call += sp + br[0] + src + br[1]
                expect[name] = exp
                feats.append('opt%s-present/%s' % (br, f))
                pending_absent = set()
            else:
                expect[name] = None
                feats.append('opt%s-absent' % br)
                pending_absent.add(br)
            continue
        pending_absent = set()
        if last and k > 0.9:
            # raw scan types, last position, \relax-terminated
            raw = r.choice(['Number', 'Dimen', 'Glue', 'MuDimen', 'MuGlue'])
            sig.append('%s:%s' % (name, raw))
            if raw in ('MuDimen', 'MuGlue'):
                txt = r.choice(['3mu', '1.5mu', '18mu']) + ('' if raw == 'MuDimen' else r.choice(['', ' plus 1mu', ' plus 2mu minus 1mu']))
                call += sp + txt + '\\relax '
                expect[name] = ['mu', txt, raw]
                feats.append('raw-' + raw)
                continue
            if raw == 'Number':
                v = r.choice([0, 42, -7])
                call += sp + str(v) + '\\relax '
                expect[name] = ['int', v]
            elif raw == 'Dimen':
                call += sp + '2.5pt\\relax '
                expect[name] = ['dimen', 5, 2]
            else:
                call += sp + '1pt plus 2pt minus 1pt\\relax '
                expect[name] = ['glue', 1, 2, 1]
            feats.append('raw-' + raw)
            continue
        if k > 0.8:
            t2 = r.choice(['Tok', 'cs', 'XTok', 'XTok', 'url', 'Args'])
            if t2 == 'Args' and not last:
                t2 = 'Tok'
            sig.append('%s:%s' % (name, t2))
            if t2 == 'XTok':
                # an expanded token: a character, a braced group, an undefined-here command, a macro of several tokens
                form = r.choice(['char', 'group', 'cs', 'multi'])
                if form == 'char':
                    call += sp + 'x'
                    expect[name] = ['source', 'x']
                elif form == 'group':
                    call += sp + '{WaWb}'
                    expect[name] = ['text', 'WaWb']
                elif form == 'cs':
                    call += sp + '\\zqfoo '
                    expect[name] = ['source', '\\zqfoo']
                else:
                    call += sp + '\\zqtwo '
                    expect[name] = ['text', 'WcWd']
                feats.append('XTok/' + form)
                continue
            if t2 == 'url':
                u = r.choice(['a#b~c%d&e', 'http://x.org/~u/?q=1&r=2#f', 'Wa%Wb'])
                call += sp + '{' + u + '}'
                expect[name] = ['text', u]
                feats.append('url')
                continue
            if t2 == 'Args':
                ptxt = r.choice(['#1#2', '#1.#2', '', '#1;#2!'])
                call += sp + ptxt + '{Wa}'
                sig.append('zz')
                expect[name] = ['source', ptxt]
                expect['zz'] = ['text', 'Wa']
                feats.append('Args')
                continue
            if t2 == 'Tok':
                tok = r.choice(['\\zqfoo ', 'x', '\\zqbar '])
                call += sp + tok
                expect[name] = ['source', tok.strip()]
            else:
                call += sp + r.choice(['\\zqfoo ', '{\\zqfoo}'])
                expect[name] = ['source', '\\zqfoo']
            feats.append(t2)
            continue
        typ = r.choice(TYPES)
        sig.append('%s%s' % (name, (':' + typ) if typ else ''))
        src, exp, f = gen_value(r, typ)
        call += sp + '{' + src + '}'
        expect[name] = exp
        feats.append('mand/' + f)
    return {'kind': 'sig', 'sig': ' '.join(sig), 'call': call, 'expect': expect, 'feats': feats}


def cases(seed, tier, shard, nshards):
    b = budget(tier)
    for i in common.sharded(b['n_sig'], shard, nshards):
        yield gen_sig(common.rng_for(seed, PROP, i, 'sig'))
    for i in common.sharded(b['n_lit'], shard, nshards):
        yield gen_literal(common.rng_for(seed, PROP, i, 'lit'))
    for i in common.sharded(b['n_sig'] // 8, shard, nshards):
        yield gen_rawlist(common.rng_for(seed, PROP, i, 'rawlist'))


def gen_rawlist(r):
    """a list argument read with the reader package authors call themselves (TeX.readArgument(type='list'), tokens not expanded
    beforehand): items protected by braces, with further brace groups inside them"""
    delim = r.choice([',', ',', ';', '|'])
    items, exp = [], []
    for _ in range(r.randint(1, 5)):
        k = r.random()
        w = [r.choice(WORDS) for _ in range(4)]
        if k < 0.35:
            items.append(w[0]); exp.append(w[0])
        elif k < 0.55:
            items.append('{%s%s%s}' % (w[0], delim, w[1])); exp.append(w[0] + delim + w[1])
        elif k < 0.8:
            # a further group inside the protected item, and the delimiter after it
            items.append('{%s{%s%s%s}%s%s%s}' % (w[0], w[1], delim, w[2], w[3], delim, w[0])); exp.append(w[0] + w[1] + delim + w[2] + w[3] + delim + w[0])
        else:
            items.append('{%s{%s}%s%s{{%s}}}' % (w[0], w[1], delim, w[2], w[3])); exp.append(w[0] + w[1] + delim + w[2] + w[3])
    spec = r.choice(['{}', '{}', '[]'])
    return {'kind': 'rawlist', 'delim': delim, 'text': spec[0] + (delim + r.choice(['', ' '])).join(items) + spec[1], 'spec': spec, 'expect': exp, 'tail': r.choice(['x', ' x', '{a}', '\\relax '])}


# ---------------------------------------------------------------------------

def close(a, b_frac):
    """plasTeX value a (float, sp) vs exact value b (Fraction, pt)"""
    b = float(b_frac * 65536)
    return abs(a - b) <= 2 + 1e-9 * abs(b)


def remainder(tex):
    from .c01 import conv
    out = []
    for t in tex.itertokens():
        if getattr(t, 'nodeType', None) == 1:
            # a left brace read ahead by a scanner comes back as the (already invoked) group
            # node: for what follows that is the same thing as the brace token itself
            if t.nodeName == 'bgroup':
                out.append((1, '{'))
            else:
                out.append(('cs', t.nodeName))
        else:
            out.append(conv(t))
    return out


def _tail_tokens(tail):
    from plasTeX.TeX import TeX
    t = TeX()
    t.input(tail)
    return list(t.itertokens())


def expected_remainder(tail):
    return L.tokenize(tail, L.Table(L.default_table()))


def balance_check(st, case, where):
    import plasTeX
    PC = plasTeX.ParameterCommand
    if PC._enablelevel != 0 or PC.enabled is not True:
        msg = '%s: ParameterCommand._enablelevel=%r enabled=%r after the case (shadow counter %d)' % (where, PC._enablelevel, PC.enabled, _shadow['level'])
        PC._enablelevel = 0
        PC.enabled = True
        _shadow['level'] = 0
        st.violation('enable-disable-unbalanced', case, msg)
    st.counters['balance_checks'] += 1


def run(case, st):
    common.plastex_reset()
    _shadow['level'] = 0
    try:
        if case['kind'] == 'sig':
            return run_sig(case, st)
        if case['kind'] == 'rawlist':
            return run_rawlist(case, st)
        return run_lit(case, st)
    finally:
        balance_check(st, case, case.get('sig') or case.get('text'))
        if _snap is not None:
            _snap.restore()


def run_rawlist(case, st):
    from plasTeX.TeX import TeX
    tex = TeX()
    tex.input(case['text'] + case['tail'])
    st.feature('raw-list', '%s %s' % (case['spec'], case['delim']))
    try:
        v = tex.readArgument(spec=None if case['spec'] == '{}' else case['spec'], type='list', delim=case['delim'])
        rem = remainder(tex)
    except common.CaseTimeout:
        raise
    except Exception as e:
        st.violation('raw-list/raises-' + type(e).__name__, case, 'reading %r raised %s' % (case['text'], traceback.format_exc()[-400:]))
        return {'nontrivial': True}
    st.counters['raw_lists_read'] += 1
    got = [re.sub(r'\s', '', x.textContent if hasattr(x, 'textContent') else str(x)) for x in (v or [])]
    want = [re.sub(r'\s', '', x) for x in case['expect']]
    if got != want:
        st.violation('raw-list/items', case, 'list argument %r (delimiter %r): items %r, written %r' % (case['text'], case['delim'], got, want))
        return {'nontrivial': True}
    exp_rem = expected_remainder('a' + case['tail'])[1:]          # (tokenized as it stands in mid-line, after the closing delimiter)
    if rem != exp_rem:
        st.violation('raw-list/remainder', case, 'list argument %r leaves %r unread, expected %r' % (case['text'], rem, exp_rem))
    return {'nontrivial': any('{' in x[1:] for x in case['text'].split(case['delim'])), 'sample': {'text': case['text']}}


def run_lit(case, st):
    import plasTeX
    from plasTeX.TeX import TeX
    kind = case['kind']
    text, tail = case['text'], case['tail']
    tex = TeX()
    doc = tex.ownerDocument
    if 'reg' in case:
        doc.context['parindent'].value = plasTeX.dimen('%dpt' % case['reg'])
    other_blank = common.case_hash(case)[0] % 8 == 0 and kind != 'decimal'
    if other_blank:
        # what follows the literal is a token that looks like a blank but is none: a blank of category 12 (as under \obeyspaces or
        # \catcode`\ =12).  Only a space *token* may be swallowed as the optional space after a literal.
        from plasTeX.Tokenizer import Other
        tex.input(text)
        toks = list(tex.itertokens())
        tex.inputs[:] = []
        tex.input('')
        tex.pushTokens(toks + [Other(' ')] + list(_tail_tokens(tail)))
        st.counters['literals_followed_by_non_space_blank'] += 1
    else:
        tex.input(text + tail)
    st.feature('literal', case['feat'])
    st.feature('tail', tail)
    src = text + tail
    try:
        if kind == 'int':
            v = tex.readInteger()
            ok = (v == case['value'])
            shown = 'value %r, expected %r' % (v, case['value'])
        elif kind == 'decimal':
            v = tex.readDecimal()
            want = Fraction(*case['value'])
            ok = abs(float(v) - float(want)) <= 1e-9 * max(1, abs(float(want)))
            shown = 'value %r, expected %s' % (v, float(want))
        elif kind == 'dimen':
            v = tex.readDimen()
            if 'font' in case:
                unit, n, d = case['font']
                tex2 = TeX()
                tex2.input('1' + unit + ' ')
                one = tex2.readDimen()
                want = float(Fraction(n, d)) * float(one)
                ok = float(one) > 0 and abs(float(v) - want) <= 2 + 1e-9 * abs(want)
                shown = 'value %r sp, expected %r x (1%s = %r sp)' % (float(v), float(Fraction(n, d)), unit, float(one))
            else:
                want = Fraction(*case['value'])
                ok = close(float(v), want)
                shown = 'value %r sp, expected %r sp' % (float(v), float(want * 65536))
        else:
            v = tex.readGlue()
            want = Fraction(*case['value'])
            ok = close(float(plasTeX.dimen(v)), want)
            shown = 'natural %r sp, expected %r sp' % (float(v), float(want * 65536))
            for comp, attr in (('plus', 'stretch'), ('minus', 'shrink')):
                got = getattr(v, attr)
                if comp not in case:
                    if got is not None:
                        ok = False
                        shown += '; %s is %r, expected none' % (attr, got)
                    continue
                kindc, n, d, order = case[comp]
                if got is None:
                    ok = False
                    shown += '; %s missing' % attr
                    continue
                g = float(got)
                gorder = int(abs(g) // 2e9) if abs(g) >= 2e9 else 0
                if kindc == 'fil':
                    gval = (abs(g) - 2e9 * gorder) * (1 if g >= 0 else -1) if gorder else None
                    if gorder != order or gval is None or abs(gval - float(Fraction(n, d))) > 1e-6:
                        ok = False
                        shown += '; %s is %r (order %d), expected %s fil-order %d' % (attr, got, gorder, float(Fraction(n, d)), order)
                else:
                    if gorder != 0 or not close(g, Fraction(n, d)):
                        ok = False
                        shown += '; %s is %r sp, expected %r sp' % (attr, g, float(Fraction(n, d) * 65536))
        rem = remainder(tex)
    except common.CaseTimeout:
        raise
    except Exception as e:
        st.violation(classify_lit(case, 'raises-' + type(e).__name__), case, 'scanning %r raised %s' % (src, traceback.format_exc()[-500:]))
        return {'nontrivial': True}
    if not ok:
        st.violation(classify_lit(case, 'value'), case, 'scanning %s literal %r: %s' % (kind, src, shown))
        return {'nontrivial': True}
    exp_rem = expected_remainder(tail)
    if other_blank:
        exp_rem = [(12, ' ')] + exp_rem
    if kind == 'decimal':
        # a bare decimal constant is not a TeX-level quantity (it only occurs inside a dimension,
        # where the optional space belongs to the unit): only its value is judged
        exp_rem = rem
    if rem != exp_rem:
        st.violation(classify_lit(case, 'remainder'), case, 'scanning %s literal %r leaves %r unread, expected %r' % (kind, src, rem, exp_rem))
    nt = any(x in case['feat'] for x in ('signs', 'oct', 'hex', 'chr', 'fraction', '/', 'register'))
    return {'nontrivial': nt, 'sample': {'literal': src, 'kind': kind}}


def classify_lit(case, symptom):
    f = case['feat']
    if case['kind'] == 'glue' and 'fil' in f and 'other-coeff' in f:
        return 'fil-multiplier/' + symptom
    if 'hex' in f and symptom == 'value' and case['tail'][:1] in tuple('abcdef'):
        return 'hex-lowercase-digit/' + symptom
    if 'hex' in f and case['tail'][:1] in tuple('abcdef'):
        return 'hex-lowercase-digit/' + symptom
    if 'chr' in f and symptom == 'remainder':
        return 'char-constant-optional-space/' + symptom
    return case['kind'] + '-literal/' + symptom


def norm_value(v):
    """normal form of a bound attribute value for comparison"""
    import plasTeX
    if v is None:
        return None
    if isinstance(v, (list, tuple)) and not hasattr(v, 'nodeType'):
        return [norm_value(x) for x in v]
    if isinstance(v, dict) and not hasattr(v, 'nodeType'):
        return {str(k): norm_value(x) for k, x in v.items()}
    if v is True:
        return True
    if hasattr(v, 'nodeType') and not isinstance(v, str):
        return re.sub(r'\s', '', v.textContent)
    if isinstance(v, str):
        return re.sub(r'\s', '', str(v))
    return v


def run_sig(case, st):
    import plasTeX
    from plasTeX.TeX import TeX
    tex = TeX()
    doc = tex.ownerDocument
    cls = type('zqmac', (plasTeX.Command,), {'args': case['sig']})
    doc.context.addGlobal('zqmac', cls)
    for n in ('zqfoo', 'zqbar'):
        doc.context.addGlobal(n, type(n, (plasTeX.Command,), {}))
    doc.context.newdef('zqtwo', '', 'WcWd')
    src = 'Aq1 \\zqmac' + (' ' if (case['call'][:1].isalpha() or not case['call']) else '') + case['call'] + 'Zq9'
    for f in case['feats']:
        st.feature('argument', f)
    try:
        tex.input(src)
        tex.parse()
        nodes = doc.getElementsByTagName('zqmac')
        node = nodes[0]
        attrs = node.attributes
    except common.CaseTimeout:
        raise
    except Exception as e:
        st.violation(classify_sig(case, None, 'raises-' + type(e).__name__), case, 'args=%r call=%r raised %s' % (case['sig'], case['call'], traceback.format_exc()[-500:]))
        return {'nontrivial': True}
    bad = []
    badname = None
    for name, exp in case['expect'].items():
        got = attrs.get(name, '<<missing>>')
        if exp is None:
            if got is not None:
                bad.append('%s: absent optional bound to %r' % (name, got))
                badname = badname or name
            continue
        kind = exp[0]
        ok = True
        if kind in ('text', 'str'):
            ok = isinstance(norm_value(got), str) and norm_value(got) == exp[1]
            if kind == 'str' and not isinstance(got, str):
                ok = False
        elif kind == 'tok':
            ok = str(got) == exp[1]
        elif kind == 'mu':
            # math units have no reference value outside plasTeX: the type and the natural part (in mu) are compared
            cls_ = plasTeX.mudimen if exp[2] == 'MuDimen' else plasTeX.muglue
            ok = isinstance(got, cls_) and abs(float(plasTeX.mudimen(got)) - float(plasTeX.mudimen(exp[1].split(' ')[0]))) < 1
        elif kind == 'int':
            ok = isinstance(got, int) and got == exp[1]
        elif kind == 'float':
            ok = isinstance(got, float) and abs(got - exp[1]) < 1e-9
        elif kind == 'dimen':
            ok = isinstance(got, float) and close(float(got), Fraction(exp[1], exp[2]))
        elif kind == 'glue':
            ok = isinstance(got, float) and close(float(plasTeX.dimen(got)), Fraction(exp[1])) and got.stretch is not None and close(float(got.stretch), Fraction(exp[2])) \
                and got.shrink is not None and close(float(got.shrink), Fraction(exp[3]))
        elif kind == 'list':
            ok = norm_value(got) == [x if isinstance(x, int) else re.sub(r'\s', '', x) for x in exp[1]]
        elif kind == 'dict':
            ok = norm_value(got) == {k: (v if v is True else re.sub(r'\s', '', v)) for k, v in exp[1].items()}
        elif kind == 'source':
            s = got.source if hasattr(got, 'source') and not isinstance(got, list) else ''.join(getattr(t, 'source', str(t)) for t in got)
            ok = re.sub(r'\s', '', s) == re.sub(r'\s', '', exp[1])
        if not ok:
            bad.append('%s: bound to %r (%s), written value %r' % (name, got, type(got).__name__, exp))
            badname = badname or name
    text = re.sub(r'\s', '', doc.textContent)
    if text != 'Aq1Zq9':
        bad.append('text around the invocation is %r, expected Aq1 Zq9 (the invocation consumed too much or too little)' % doc.textContent)
    # argSource must re-tokenise to the tokens of the invocation (blanks aside)
    if not bad:
        t = L.Table(L.default_table())
        a = [x for x in L.tokenize(node.argSource, t) if x[0] != 10]
        b = [x for x in L.tokenize(case['call'], t) if x[0] != 10]
        # (an expanded-token argument records the source of its expansion, by design: not compared)
        # (a url value is read with % # ~ & as ordinary characters: it cannot be re-tokenised under the default table)
        if a != b and not any(f.startswith(('raw-', 'XTok/multi')) or 'url' in f for f in case['feats']):
            bad.append('argSource %r does not re-tokenise to the invocation %r' % (node.argSource, case['call']))
    if bad:
        st.violation(classify_sig(case, badname, 'binding'), case, 'args=%r call=%r: %s' % (case['sig'], case['call'], '; '.join(bad[:3])))
    return {'nontrivial': len(case['expect']) >= 2, 'sample': {'args': case['sig'], 'call': case['call']}}


def classify_sig(case, name, symptom):
    feats = ' '.join(case['feats'])
    if 'hidden-bracket' in feats:
        return 'closing-bracket-hidden-in-braces/' + symptom
    if 'str/inner-group' in feats:
        return 'str-argument-with-inner-group/' + symptom
    return 'signature/' + symptom
