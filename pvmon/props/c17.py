"""C17 -- a document's result does not depend on what was processed before it.

Two monitors on every sequence A1..Ak;B (k <= 4):
(1) differential: B is processed (parsed, and in half of the cases rendered)
    after the A's in the worker process and alone in a *fresh subprocess*; the
    canonicalised toXML() and rendered files (generated ids a\\d{10} renamed in
    order of first appearance) must be identical; B is also processed twice in
    a row in one process.
(2) state snapshots (pvmon.obs.state): the class-level attributes of every
    shared Macro class, renderer residue on Node, cwd, TEXINPUTS and sys.path
    are snapshotted before A1 and after every document; any holder whose value
    differs from the initial snapshot is a refuting event by itself (it catches
    leaks that this particular B does not happen to observe).
Unlike every other check, nothing is reset between the documents of a
sequence; the known holders are reset only between sequences."""
import os, tempfile, sys, json, subprocess, traceback, re, hashlib
from .. import common
from ..gen import docs
from ..gen.programs import ProgGen
from ..obs import state as S
from ..obs import render as R

PROP = 'C17'
LEVEL = 'exploration'
RULE = ('sequences A1..Ak;B (k in 1..4) of generated documents (gen.docs, macro programs) and hostile documents: TeX register assignments (\\parindent=, '
        '\\setlength, \\tolerance=), class switches article/book/report, packages (ifthen, amsmath, makeidx, array + \\newcolumntype), \\openout, '
        'documents that leave $ / \\[ / a list / a group / an environment open at end of input; B compared with B alone in a fresh subprocess '
        '(tree, and rendered files for half of the cases) and with B processed twice.  Non-trivial = the sequence contains a hostile A or a class '
        'switch; distinct by content hash.')
ASSUMPTIONS = ['generated identifiers are exempt (statement): they are renamed in order of first appearance before comparing',
               'holders = class attributes of Macro subclasses defined in plasTeX modules (documents create their own classes for \\newcommand etc.)']
DECIDING_COUNTERS = {'snapshots_compared': 100, 'differential_comparisons': 20}


def budget(tier):
    return {'n': 160 if tier == 'quick' else 4000, 'case_timeout': 300}


_S0 = None
_cache = {}


def setup(st):
    global _S0
    # reference values of the shared classes are recorded *before* any document is processed
    common.plastex_reset()
    # warm-up: import everything a first document imports, then take the reference snapshot
    process('\\documentclass{article}\\begin{document}x\\end{document}', False)
    process('\\documentclass{book}\\begin{document}x\\end{document}', False)
    process('\\documentclass{report}\\usepackage{ifthen}\\usepackage{amsmath}\\usepackage{makeidx}\\usepackage{array}\\begin{document}x\\end{document}', True)
    common.plastex_reset()
    _S0 = S.snapshot()


def anchors():
    import plasTeX
    from plasTeX.Base.TeX.Primitives import MathShift
    from plasTeX.Base.LaTeX.Lists import List
    from plasTeX.Packages import article
    from plasTeX.TeX import TeX
    d = {'ParameterCommand.invoke': plasTeX.ParameterCommand.invoke, 'MathShift.invoke': MathShift.invoke, 'List.invoke': List.invoke,
         'article.ProcessOptions': article.ProcessOptions, 'TeXDocument.__init__': plasTeX.TeXDocument.__init__}
    for n in SWITCH_FUNCS:
        d['TeX.' + n] = getattr(TeX, n)
    return d


# every statement that turns the interpreter-wide argument-scanning switch back on must be executed by the workload
# (a leak on a return path nobody takes would otherwise go unnoticed: then the verdict is inconclusive, not held)
SWITCH_FUNCS = ['readArgumentAndSource', 'readDimen', 'readUnitOfMeasure', 'readInteger', 'readGlue', 'readMuGlue']
WATCH_LINES = dict(('TeX.' + n, r'ParameterCommand\.enable\(\)') for n in SWITCH_FUNCS)


HOSTILE = [
    ('register-dimen', '\\documentclass{article}\\begin{document}\\parindent=20pt Wq1x \\setlength{\\parskip}{3pt} Wq2x\\end{document}'),
    ('register-count', '\\documentclass{article}\\begin{document}\\tolerance=500 Wq1x\\end{document}'),
    ('class-article', '\\documentclass{article}\\usepackage{makeidx}\\makeindex\\begin{document}\\section{Wq1x}Wq2x\\index{a}\\printindex\\end{document}'),
    ('class-book', '\\documentclass{book}\\begin{document}\\chapter{Wq1x}Wq2x\\end{document}'),
    ('class-report', '\\documentclass{report}\\begin{document}\\chapter{Wq1x}\\begin{equation}x\\end{equation}\\end{document}'),
    ('newcolumntype', '\\documentclass{article}\\usepackage{array}\\newcolumntype{Z}{>{\\bfseries}c}\\begin{document}\\begin{tabular}{Zl}a&b\\end{tabular}\\end{document}'),
    ('openout', '\\documentclass{article}\\begin{document}\\newwrite\\zqf \\openout\\zqf=zqout Wq1x\\end{document}'),
    ('open-math', '\\documentclass{article}\\begin{document}Wq1x $a+b'),
    ('open-displaymath', '\\documentclass{article}\\begin{document}Wq1x \\[ a+b'),
    ('open-list', '\\documentclass{article}\\begin{document}\\begin{enumerate}\\item Wq1x \\begin{itemize}\\item Wq2x'),
    ('open-group', '\\documentclass{article}\\begin{document}{\\bfseries Wq1x {\\itshape Wq2x'),
    ('open-ifthen', '\\documentclass{article}\\usepackage{ifthen}\\begin{document}Wq1x \\ifthenelse{1<2}{Wq2x'),
    ('ifthen', '\\documentclass{article}\\usepackage{ifthen}\\begin{document}\\ifthenelse{\\( 1<2 \\) \\and \\not 3<2}{Wq1x}{Wq2x}\\end{document}'),
    ('newif-counters', '\\documentclass{article}\\begin{document}\\newif\\ifzqa \\zqatrue \\newcounter{zqc}\\stepcounter{zqc}\\ifzqa Wq1x\\fi\\arabic{zqc}\\end{document}'),
    ('catcodes', '\\documentclass{article}\\begin{document}\\makeatletter\\def\\zq@x{Wq1x}\\zq@x \\catcode`\\|=13 Wq2x'),
    ('verbatim-open', '\\documentclass{article}\\begin{document}Wq1x \\begin{verbatim}\nWq2x'),
    ('appendix', '\\documentclass{article}\\begin{document}\\section{Wq1x}\\appendix\\section{Wq2x}\\end{document}'),
    ('amsmath', '\\documentclass{article}\\usepackage{amsmath}\\begin{document}\\begin{align}a&=b\\\\c&=d\\end{align}\\end{document}'),
    ('register-first-token', '\\parindent=30pt \\tolerance=9000 \\documentclass{article}\\begin{document}Wq1x \\the\\parindent\\end{document}'),
    ('register-first-token-bare', '\\parskip=7pt plus 1pt Wq1x \\the\\parskip'),
    # the same name starting with `if` is a \\newif switch here and an ordinary macro in a probe (and the other way round)
    ('ifname-as-switch', '\\documentclass{article}\\begin{document}\\newif\\ifzqd \\iffalse \\ifzqd Wq1x\\else Wq2x\\fi \\fi Wq3x \\def\\ifzqm#1{[#1]}\\iffalse \\ifzqm{x}\\fi Wq4x\\end{document}'),
    ('register-from-register', '\\documentclass{article}\\begin{document}\\parindent=\\parskip \\parskip=\\baselineskip \\parindent=2\\parskip \\thinmuskip=\\medmuskip '
                               '\\medmuskip=3mu plus 1mu \\tolerance=\\pretolerance Wq1x \\the\\parindent\\end{document}'),
    ('mu-arguments', '\\documentclass{article}\\begin{document}Wq1x \\zqmuargs 3mu 4mu plus 1mu Wq2x \\zqmuargs{2mu}{\\thinmuskip} Wq3x\\end{document}'),
    ('ifx-macros', '\\documentclass{article}\\begin{document}\\def\\zqe{}\\def\\zqt{no}\\def\\zqu{no}\\ifx\\zqt\\zqe Wq1x\\else Wq2x\\fi \\ifx\\zqt\\zqu Wq3x\\fi '
                   '\\ifx a\\zqt Wq4x\\fi \\ifx\\zqe\\relax Wq5x\\fi \\parindent=20pt Wq6x\\end{document}'),
    # base classes whose derived classes appear in the probes (per-class memos must not be inherited by the subclass)
    ('eqnarray-star', '\\documentclass{article}\\begin{document}\\begin{eqnarray*}a&=&b\\\\c&=&d\\end{eqnarray*}Wq1x\\end{document}'),
    ('tabular-array', '\\documentclass{article}\\begin{document}\\begin{tabular}{ll}Wq1x&Wq2x\\\\Wq3x&Wq4x\\end{tabular} $\\begin{array}{c}a\\\\b\\end{array}$\\end{document}'),
    ('bibliography', '\\documentclass{article}\\begin{document}Wq1x\\cite{zk}\\begin{thebibliography}{9}\\bibitem{zk}Wq2x\\end{thebibliography}\\end{document}'),
    ('itemize-only', '\\documentclass{article}\\begin{document}\\begin{itemize}\\item Wq1x\\end{itemize}\\begin{description}\\item[Wq2x] Wq3x\\end{description}\\end{document}'),
]
PROBES = [
    '\\documentclass{article}\\begin{document}\\newcommand{\\ifzqd}[1]{(#1)}\\iffalse \\ifzqd{x}\\fi Wq1x \\newif\\ifzqm \\iffalse \\ifzqm Wq2x\\else Wq3x\\fi \\fi Wq4x\\end{document}',
    '\\documentclass{article}\\begin{document}\\begin{eqnarray}a&=&b\\label{r1}\\\\c&=&d\\label{r2}\\end{eqnarray}Wq1x \\ref{r1} \\ref{r2}\\end{document}',
    '\\documentclass{article}\\usepackage{longtable}\\begin{document}\\begin{longtable}{ll}Wq1x&Wq2x\\\\\\endhead Wq3x&Wq4x\\\\Wq5x&Wq6x\\end{longtable}\\end{document}',
    '\\documentclass{article}\\usepackage{amsmath}\\begin{document}\\begin{align}a&=b\\label{a1}\\\\c&=d\\label{a2}\\end{align}\\begin{gather}x\\\\y\\end{gather}\\ref{a1} \\ref{a2}\\end{document}',
    '\\documentclass{article}\\usepackage{natbib}\\begin{document}Wq1x\\citep{zk}\\begin{thebibliography}{9}\\bibitem[A(2000)]{zk}Wq2x\\end{thebibliography}\\end{document}',
    '\\documentclass{article}\\begin{document}\\begin{enumerate}\\item Wq1x\\label{i1}\\begin{enumerate}\\item Wq2x\\label{i2}\\end{enumerate}\\end{enumerate}\\ref{i1} \\ref{i2}\\end{document}',
    '\\documentclass{article}\\begin{document}Wq1x $x^2$ Wq2x \\begin{enumerate}\\item Wq3x \\begin{enumerate}\\item Wq4x\\end{enumerate}\\end{enumerate}\\end{document}',
    '\\documentclass{book}\\usepackage{makeidx}\\makeindex\\begin{document}\\chapter{Wq1x}Wq2x\\index{b}\\section{Wq3x}\\begin{equation}y\\end{equation}\\printindex\\end{document}',
    '\\documentclass{article}\\begin{document}\\ifdim\\parindent>25pt Wq7x\\else Wq8x\\fi \\ifnum\\tolerance>1000 Wq9x\\fi \\the\\parskip \\the\\parindent Wq1x \\begin{tabular}{lc}Wq2x&Wq3x\\end{tabular} \\section{Wq4x}\\label{s}\\ref{s}\\end{document}',
    '\\documentclass{report}\\begin{document}\\chapter{Wq1x}\\begin{figure}Wq2x\\caption{Wq3x}\\end{figure}\\[ z \\] \\(w\\)\\end{document}',
]


# Packages and classes that keep settings of their own (colour tables, citation punctuation, float kinds, language terms, input
# encoding, ...): (name, a document that changes the setting, a document that relies on the default).  Each pair is run in both
# orders, parsed only and rendered; the second document must come out as in a fresh interpreter.
_D = '\\documentclass{article}'
PKG_PAIRS = [
 ('color', _D + '\\usepackage{color}\\definecolor{gray}{gray}{0.5}\\definecolor{zqmine}{rgb}{1,0,0}\\begin{document}\\textcolor{gray}{Wq1x} \\textcolor{zqmine}{Wq2x}\\end{document}',
           _D + '\\usepackage{color}\\begin{document}\\textcolor{gray}{Wq1x} \\colorbox{red}{Wq2x} {\\color{blue}Wq3x}\\end{document}'),
 ('xcolor', _D + '\\usepackage{xcolor}\\definecolor{blue}{rgb}{0,0,0}\\colorlet{red}{green}\\begin{document}\\textcolor{blue}{Wq1x} \\textcolor{red}{Wq2x}\\end{document}',
           _D + '\\usepackage{xcolor}\\begin{document}\\textcolor{blue}{Wq1x} \\textcolor{red!50}{Wq2x} \\colorbox{yellow}{Wq3x}\\end{document}'),
 ('hyperref', _D + '\\usepackage{hyperref}\\hypersetup{colorlinks=true,pdftitle={Zz}}\\begin{document}\\href{http://a.example/x}{Wq1x}\\end{document}',
           _D + '\\usepackage{hyperref}\\begin{document}\\href{http://b.example/y}{Wq1x} \\url{http://c.example/a_b}\\section{Wq2x}\\label{s}\\autoref{s}\\end{document}'),
 ('graphicx', _D + '\\usepackage{graphicx}\\graphicspath{{zqfigs/}}\\DeclareGraphicsExtensions{.zq}\\begin{document}Wq1x\\end{document}',
           _D + '\\usepackage{graphicx}\\begin{document}Wq1x \\includegraphics[width=3cm]{zqnofile}\\end{document}'),
 ('natbib', _D + '\\usepackage[numbers]{natbib}\\bibpunct{[}{]}{;}{n}{,}{,}\\begin{document}Wq1x\\citep{zk}\\begin{thebibliography}{9}\\bibitem{zk}Wq2x\\end{thebibliography}\\end{document}',
           _D + '\\usepackage[numbers]{natbib}\\begin{document}Wq1x\\citep{zk} \\citet{zk}\\begin{thebibliography}{9}\\bibitem{zk}Wq2x\\end{thebibliography}\\end{document}'),
 ('babel', _D + '\\usepackage[french]{babel}\\begin{document}\\tableofcontents\\section{Wq1x}\\begin{figure}Wq2x\\caption{Wq3x}\\end{figure}\\end{document}',
           _D + '\\usepackage[german]{babel}\\begin{document}\\tableofcontents\\section{Wq1x}\\begin{figure}Wq2x\\caption{Wq3x}\\end{figure}\\end{document}'),
 ('babel-none', _D + '\\usepackage[french]{babel}\\begin{document}\\tableofcontents\\section{Wq1x}\\begin{table}Wq2x\\caption{Wq3x}\\end{table}\\end{document}',
           _D + '\\begin{document}\\tableofcontents\\section{Wq1x}\\begin{table}Wq2x\\caption{Wq3x}\\end{table}\\begin{thebibliography}{9}\\bibitem{zk}Wq4x\\end{thebibliography}\\end{document}'),
 ('float', _D + '\\usepackage{float}\\newfloat{zqprog}{tbp}{lop}\\floatname{zqprog}{Program}\\begin{document}\\begin{zqprog}Wq1x\\caption{Wq2x}\\end{zqprog}\\end{document}',
           _D + '\\usepackage{float}\\begin{document}\\begin{figure}[H]Wq1x\\caption{Wq2x}\\end{figure}\\end{document}'),
 ('alltt', _D + '\\usepackage{alltt}\\begin{document}\\begin{alltt}\nWq1x \\catcode`\\$=3 \\catcode`\\%=14 \\makeatletter $a$ \\textbf{Wq2x}\n\\end{alltt}\\end{document}',
           _D + '\\usepackage{alltt}\\begin{document}\\begin{alltt}\necho $HOME and $PATH 100% a@b \\textbf{Wq1x} {Wq2x}\n\\end{alltt}Wq3x $x$ 50\\% \\end{document}'),
 ('listings', _D + '\\usepackage{listings}\\lstset{language=Python,numbers=left}\\begin{document}\\begin{lstlisting}\nfor x in y: pass\n\\end{lstlisting}\\end{document}',
           _D + '\\usepackage{listings}\\begin{document}\\begin{lstlisting}\nfor x in y: pass\n\\end{lstlisting}\\lstinline|a b|\\end{document}'),
 ('fancyvrb', _D + '\\usepackage{fancyvrb}\\DefineVerbatimEnvironment{zqv}{Verbatim}{numbers=left}\\fvset{frame=single}\\begin{document}\\begin{zqv}\nWq1x\n\\end{zqv}\\end{document}',
           _D + '\\usepackage{fancyvrb}\\begin{document}\\begin{Verbatim}\nWq1x \\x\n\\end{Verbatim}\\end{document}'),
 ('amsthm', _D + '\\usepackage{amsthm}\\theoremstyle{remark}\\newtheorem{zqr}{Remark}\\begin{document}\\begin{zqr}Wq1x\\end{zqr}\\end{document}',
           _D + '\\usepackage{amsthm}\\newtheorem{zqt}{Theorem}\\begin{document}\\begin{zqt}Wq1x\\end{zqt}\\begin{proof}Wq2x\\end{proof}\\end{document}'),
 ('enumerate', _D + '\\usepackage{enumerate}\\begin{document}\\begin{enumerate}[(a)]\\item Wq1x\\item Wq2x\\end{enumerate}\\end{document}',
           _D + '\\usepackage{enumerate}\\begin{document}\\begin{enumerate}\\item Wq1x\\label{i}\\end{enumerate}\\begin{enumerate}[I.]\\item Wq2x\\end{enumerate}\\ref{i}\\end{document}'),
 ('caption', _D + '\\usepackage{caption}\\captionsetup{labelsep=period}\\begin{document}\\begin{figure}Wq1x\\caption{Wq2x}\\end{figure}\\end{document}',
           _D + '\\usepackage{caption}\\begin{document}\\begin{figure}Wq1x\\caption{Wq2x}\\end{figure}\\begin{table}\\caption*{Wq3x}\\end{table}\\end{document}'),
 ('cleveref', _D + '\\usepackage{cleveref}\\crefname{equation}{Eq.}{Eqs.}\\begin{document}\\begin{equation}x\\label{e1}\\end{equation}\\cref{e1}\\end{document}',
           _D + '\\usepackage{cleveref}\\begin{document}\\begin{equation}x\\label{e1}\\end{equation}\\section{Wq1x}\\label{s1}\\cref{e1} \\Cref{s1}\\end{document}'),
 ('url', _D + '\\usepackage{url}\\urlstyle{sf}\\begin{document}Wq1x \\url{http://a.example/%7Ex}\\end{document}',
           _D + '\\usepackage{url}\\begin{document}Wq1x \\url{http://b.example/a_b#c} \\path{/x/y}\\end{document}'),
 ('inputenc', _D + '\\usepackage[latin1]{inputenc}\\begin{document}Wq1x\\end{document}',
           _D + '\\begin{document}Wq1x \u00e9\u00df\u03bb Wq2x\\end{document}'),
 ('beamer', '\\documentclass{beamer}\\begin{document}\\begin{frame}\\frametitle{Wq1x}Wq2x\\end{frame}\\end{document}',
           _D + '\\begin{document}\\section{Wq1x}Wq2x \\begin{itemize}\\item Wq3x\\end{itemize}\\begin{equation}y\\label{e}\\end{equation}\\ref{e}\\end{document}'),
 ('memoir', '\\documentclass{memoir}\\begin{document}\\chapter{Wq1x}\\section{Wq2x}Wq3x\\end{document}',
           '\\documentclass{book}\\begin{document}\\chapter{Wq1x}\\section{Wq2x}\\begin{equation}y\\label{e}\\end{equation}\\ref{e}\\end{document}'),
 ('amsart', '\\documentclass{amsart}\\begin{document}\\section{Wq1x}\\begin{equation}y\\end{equation}\\end{document}',
           '\\documentclass{book}\\begin{document}\\chapter{Wq1x}\\section{Wq2x}\\begin{equation}y\\label{e}\\end{equation}\\begin{figure}\\caption{Wq3x}\\label{f}\\end{figure}\\ref{e} \\ref{f}\\end{document}'),
 ('subfig', _D + '\\usepackage{subfig}\\begin{document}\\begin{figure}\\subfloat[Wq1x]{Wq2x}\\caption{Wq3x}\\end{figure}\\end{document}',
           _D + '\\begin{document}\\begin{figure}Wq1x\\caption{Wq2x}\\label{f}\\end{figure}\\ref{f}\\end{document}'),
 ('tabularx', _D + '\\usepackage{tabularx}\\begin{document}\\begin{tabularx}{5cm}{lX}Wq1x&Wq2x\\end{tabularx}\\end{document}',
           _D + '\\usepackage{array}\\begin{document}\\begin{tabular}{l>{\\bfseries}cX}Wq1x&Wq2x&Wq3x\\end{tabular}\\end{document}'),
 ('shortvrb', _D + '\\usepackage{shortvrb}\\MakeShortVerb{\\|}\\begin{document}|Wq1x_y| Wq2x\\end{document}',
           _D + '\\begin{document}Wq1x | Wq2x \\begin{tabular}{l|l}a&b\\end{tabular}\\end{document}'),
 ('setspace-geometry', _D + '\\usepackage{setspace}\\usepackage[margin=1cm]{geometry}\\doublespacing\\begin{document}Wq1x\\end{document}',
           _D + '\\begin{document}Wq1x \\the\\baselineskip\\end{document}'),
 ('verse', _D + '\\usepackage{verse}\\begin{document}\\begin{verse}[3cm]Wq1x \\\\ Wq2x\\end{verse}\\end{document}',
           _D + '\\begin{document}\\begin{verse}[Wq1x] Wq2x \\\\ Wq3x\\end{verse}\\begin{quote}Wq4x\\end{quote}\\end{document}'),
 ('hyperref-ref', _D + '\\usepackage{hyperref}\\begin{document}\\section{Wq1x}\\label{s}\\ref*{s} \\pageref*{s} \\ref{s}\\end{document}',
           _D + '\\begin{document}\\section{Wq1x}\\label{s}\\ref{s}* \\pageref{s} Wq2x\\end{document}'),
 ('beamer-item', '\\documentclass{beamer}\\begin{document}\\begin{frame}\\begin{itemize}\\item<1-> Wq1x\\end{itemize}\\textbf<2>{Wq2x}\\end{frame}\\end{document}',
           _D + '\\begin{document}\\begin{itemize}\\item <Wq1x> Wq2x\\item[Wq3x] <Wq4x>\\end{itemize}\\textbf{Wq5x} <Wq6x> \\footnote[2]{Wq7x}\\begin{enumerate}\\item [Wq8x]\\end{enumerate}\\end{document}'),
 ('textcomp', _D + '\\usepackage{textcomp}\\usepackage{wasysym}\\begin{document}\\texteuro Wq1x\\end{document}',
           _D + '\\begin{document}Wq1x \\textbullet \\S \\copyright\\end{document}'),
]


GENERAL_PROBE = (_D + '\\begin{document}\\section{Wq1x}\\label{s1}\\subsection[Wq2x]{Wq3x}Wq4x \\textbf{Wq5x} \\textit{Wq6x} <Wq7x> \\footnote[2]{Wq8x} \\ref{s1}* \\pageref{s1}\n\n'
                 '\\begin{itemize}\\item <Wq9x> Wq10x\\item[Wq11x] Wq12x\\end{itemize}\\begin{enumerate}\\item [Wq13x]\\label{i1}\\end{enumerate}\\begin{description}\\item[Wq14x] <Wq15x>\\end{description}\n\n'
                 '\\begin{verse}[Wq16x] Wq17x\\end{verse}\\begin{quote}<Wq18x>\\end{quote}\\begin{quotation}[Wq19x]\\end{quotation}\\begin{abstract}<Wq20x>\\end{abstract}\n\n'
                 '\\begin{figure}Wq21x\\caption{Wq22x}\\label{f1}\\end{figure}\\begin{table}\\begin{tabular}{l|r}Wq23x&Wq24x\\\\Wq25x&Wq26x\\end{tabular}\\caption[Wq27x]{Wq28x}\\end{table}\n\n'
                 '\\newcommand{\\zqnc}[1]{(#1)}\\zqnc{Wq29x} \\newenvironment{zqnv}{[}{]}\\begin{zqnv}Wq30x\\end{zqnv} $a<b>c$ \\[x^2\\] \\begin{equation}y\\label{e1}\\end{equation}\\ref{e1} \\ref{f1} \\ref{i1}\n\n'
                 '\\ifpdf Wq40x\\else Wq41x\\fi \\ifmmode Wq42x\\else Wq43x\\fi \\cite{zk}\\begin{thebibliography}{9}\\bibitem{zk} <Wq31x> Wq32x\\bibitem[Wq33x]{zj}Wq34x\\end{thebibliography}\\appendix\\section{Wq35x}\\end{document}')
DOCUMENT_CLASSES = ('article', 'book', 'report', 'amsart', 'amsbook', 'beamer', 'memoir', 'jss')


def argumentless_commands():
    """the names of all commands without arguments that a fresh article document knows (setters of built-in switches,
    declarations, mode changes ...), read from a real context at run time"""
    import plasTeX
    from plasTeX.TeX import TeX
    t = TeX()
    t.input(_D + '\\begin{document}x\\end{document}')
    t.parse()
    out = []
    for k, v in t.ownerDocument.context.contexts[0].items():
        try:
            if isinstance(v, type) and issubclass(v, plasTeX.Macro) and not issubclass(v, plasTeX.Environment) \
                    and not (getattr(v, 'args', '') or '').strip() and k.isalpha():
                out.append(k)
        except Exception:
            pass
    common.plastex_reset()
    return sorted(out)


def package_names():
    """every package and class the distribution ships (read from the directory at run time)"""
    import plasTeX.Packages
    d = os.path.dirname(plasTeX.Packages.__file__)
    return sorted(f[:-3] for f in os.listdir(d) if f.endswith('.py') and f != '__init__.py')


def borrowed(r):
    """a document from the generator of another check (macro programs, conditionals, scopes, argument forms,
    counters, lists/tables, index, ifthen): everything that scans arguments or switches interpreter-wide state"""
    import importlib
    which = r.choice(['c02', 'c03', 'c03', 'c04', 'c05', 'c08', 'c10', 'c18', 'c19', 'c11'])
    sub = r.randrange(10 ** 6)
    try:
        if which == 'c04':
            from ..gen.scopes import ScopeGen
            pre, body = ScopeGen(r, maxdepth=r.choice([2, 3])).program()
            return 'borrowed:c04', pre + body
        if which == 'c19':
            from . import c19
            return 'borrowed:c19', c19.gen_case(r)['doc']
        if which == 'c05':
            from . import c05
            c = c05.gen_literal(r)
            reg = {'dimen': '\\parindent', 'glue': '\\parskip', 'int': '\\tolerance', 'integer': '\\tolerance', 'number': '\\tolerance'}.get(c['kind'], '\\parindent')
            return 'borrowed:c05', '\\documentclass{article}\\begin{document}Wq1x %s=%s Wq2x \\the%s\\end{document}' % (reg, c['text'], reg)
        mod = importlib.import_module('pvmon.props.' + which)
        for c in mod.cases(sub, 'quick', r.randrange(50), 10 ** 9):
            for k in ('src', 'program'):
                if isinstance(c.get(k), str):
                    return 'borrowed:' + which, c[k]
            if which == 'c11' and c.get('kind') == 'verbatim':
                return 'borrowed:c11', '\\documentclass{article}\\begin{document}\\begin{%s}%s\\end{%s} Wq1x\\end{document}' % (c['env'], c['body'], c['env'])
    except Exception:
        pass
    return r.choice(HOSTILE)


def gen_doc(r):
    k = r.random()
    if k < 0.3:
        name, src = r.choice(HOSTILE)
        return name, src
    if k < 0.55:
        return borrowed(r)
    if k < 0.8:
        d = docs.gen(r, depth=r.choice([1, 2]), maxsec=4, blocks=(1, 3), labels=True, refs=True, index=False)
        return 'generated:' + d['cls'], docs.latex(d)
    if k < 0.9:
        return 'program', ProgGen(r, max_items=8).program()
    return 'probe', r.choice(PROBES)


def cases(seed, tier, shard, nshards):
    # every hand-written document once, whatever the seed (the watched statements must not depend on the draw)
    for i in common.sharded(len(HOSTILE) * len(PROBES), shard, nshards):
        h, q = divmod(i, len(PROBES))
        yield {'A': [list(HOSTILE[h])], 'B': ['probe', PROBES[q]], 'render': i % 7 == 0, 'renderer': RENDERERS[(i // 7) % len(RENDERERS)]}
    for i in common.sharded(len(PKG_PAIRS) * 4, shard, nshards):
        name, a, b = PKG_PAIRS[i // 4]
        if i % 2:
            a, b = b, a
        yield {'A': [['package-setting:' + name, a]], 'B': ['probe', b], 'render': i % 4 >= 2, 'renderer': RENDERERS[(i // 4) % len(RENDERERS)], 'pair': name}
    # every package and class of the distribution, loaded by an otherwise empty document, followed by a document that uses the
    # standard macros (what a package does to shared classes when it is imported shows in the holders and in that document)
    names = package_names()
    for i in common.sharded(len(names), shard, nshards):
        n = names[i]
        a = ('\\documentclass{%s}\\begin{document}Wq1x\\end{document}' % n) if n in DOCUMENT_CLASSES else (_D + '\\usepackage{%s}\\begin{document}Wq1x\\end{document}' % n)
        yield {'A': [['package-load:' + n, a]], 'B': ['probe', GENERAL_PROBE], 'render': False, 'renderer': 'HTML5', 'pair': 'load:' + n}
    # the same \usepackage in a document that has no such package and in one whose own project directory provides it
    if shard == 0:
        body = _D + '\\usepackage{zqhousepkg}\\begin{document}Wq1x \\zqhousemacro Wq2x\\end{document}'
        for k in range(4):
            a, b = ('package-absent', body), ('probe', PKGDIR_MARK + body)
            if k % 2:
                a, b = ('package-in-own-directory', PKGDIR_MARK + body), ('probe', body)
            yield {'A': [list(a)], 'B': list(b), 'render': k >= 2, 'renderer': 'HTML5', 'pair': 'package-availability'}
    # a document with a language-terms file of its own, before and after documents that use the built-in terms
    if shard == 1 % nshards:
        body = '\\documentclass{book}\\begin{document}\\tableofcontents\\chapter{Wq1x}Wq2x \\chaptername* \\figurename* \\contentsname*\\begin{figure}Wq3x\\caption{Wq4x}\\end{figure}\\end{document}'
        for k in range(4):
            a, b = ('terms-file', TERMS_MARK + body), ('probe', body)
            if k % 2:
                a, b = ('built-in-terms', body), ('probe', TERMS_MARK + body)
            yield {'A': [list(a)], 'B': list(b), 'render': k >= 2, 'renderer': 'HTML5', 'pair': 'language-terms'}
    # every command without arguments, used once inside a group by an otherwise empty document (a built-in switch or setting that a
    # command keeps on its class shows in the holders); the quick tier takes every third name, rotating with the seed
    cmds = argumentless_commands()
    step = 1 if tier != 'quick' else 3
    try:
        off = int(seed) % step
    except (TypeError, ValueError):
        off = 0
    for i in common.sharded(len(cmds), shard, nshards):
        if i % step != off and not cmds[i].endswith(('true', 'false')):      # (the setters of switches are always taken)
            continue
        yield {'A': [['command:' + cmds[i], _D + '\\begin{document}Wq1x {\\%s} Wq2x\\end{document}' % cmds[i]]], 'B': ['probe', GENERAL_PROBE], 'render': False,
               'renderer': 'HTML5', 'pair': 'command'}
    for i in common.sharded(budget(tier)['n'], shard, nshards):
        r = common.rng_for(seed, PROP, i)
        As = [gen_doc(r) for _ in range(r.randint(1, 4))]
        kb = r.random()
        if kb < 0.5:
            B = ('probe', r.choice(PROBES))
        else:
            B = gen_doc(r)
            while B[0].startswith(('open-', 'borrowed:')) or B[0] in ('verbatim-open', 'catcodes', 'openout'):
                B = gen_doc(r)
        yield {'A': [list(a) for a in As], 'B': list(B), 'render': r.random() < 0.5, 'renderer': r.choice(RENDERERS)}


# ---------------------------------------------------------------------------

_custom = []


def install_custom(tex, doc):
    """a package-style command whose arguments are read as math dimension and math glue (no command of the distribution
    declares these argument types; the readers exist for package authors).  Installed for every document alike."""
    import plasTeX
    if not _custom:
        _custom.append(type('zqmuargs', (plasTeX.Command,), {'args': 'a:MuDimen b:MuGlue', 'macroName': 'zqmuargs'}))
    doc.context.addGlobal('zqmuargs', _custom[0])


# (the EPUB renderer is left out: it raises IndexError on a document without a sectioning unit, so most of the
# documents here would not be 'processed to completion' under it)
RENDERERS = ['HTML5', 'XHTML', 'HTML5', 'XHTML', 'Text', 'ManPage', 'DocBook', 'S5']


def read_files(outdir):
    """every text file a renderer wrote (whatever its extension: .html, .txt, .man, .xml, .opf ...)"""
    out = {}
    for root, dirs, files in os.walk(outdir):
        for f in files:
            if f.endswith(('.paux', '.epub', '.png', '.svg', '.gif', '.jpg', '.css', '.js', '.ico', '.woff', '.ttf', '.eot')):
                continue
            p_ = os.path.join(root, f)
            try:
                out[os.path.relpath(p_, outdir)] = open(p_, 'rb').read().decode('utf-8', 'replace')
            except OSError:
                pass
    return out


def unmix_after_failed_render(renderer):
    import importlib
    from plasTeX.DOM import Node
    from plasTeX import Renderers
    try:
        cls = importlib.import_module('plasTeX.Renderers.' + renderer).Renderer
        if 'renderer' in vars(Node):
            del Node.renderer
        Renderers.unmix(Node, cls.renderableClass)
    except Exception:
        pass


# A document that begins with this comment line is processed with a project directory of its own in `packages-dirs`, which holds
# the package zqhousepkg; for any other document that package does not exist (whether a package can be found depends on the
# document's own configuration, not on what another document could or could not find)
PKGDIR_MARK = '%pvmon:own-package-directory\n'
_pkgdir = []


def package_dir():
    if not _pkgdir:
        d = tempfile.mkdtemp(prefix='c17pkg-', dir=os.environ.get('PVMON_TMP') or None)
        with open(os.path.join(d, 'zqhousepkg.py'), 'w') as f:
            f.write('from plasTeX import Command\n\nclass zqhousemacro(Command):\n    def invoke(self, tex):\n        return tex.textTokens("Zhousez")\n')
        _pkgdir.append(d)
        import atexit, shutil
        atexit.register(shutil.rmtree, d, True)
    return _pkgdir[0]


# A document that begins with this comment line is processed with a language-terms file of its own (document/lang-terms) that
# renames terms of a built-in language and adds one; other documents use the built-in terms
TERMS_MARK = '%pvmon:own-language-terms\n'


def terms_file():
    p = os.path.join(package_dir(), 'zqterms.xml')
    if not os.path.exists(p):
        with open(p, 'w', encoding='utf-8') as f:
            f.write('<languages>\n<terms lang="en">\n<term name="chapter">Kapitel</term>\n<term name="figure">Abbildung</term>\n'
                    '<term name="contents">Inhalt</term>\n<term name="zqterm">Zqtermz</term>\n</terms>\n'
                    '<terms lang="de">\n<term name="table">Tafel</term>\n</terms>\n</languages>\n')
    return p


def process(src, render, renderer='HTML5'):
    """-> canonical observable result of one document (tree, and files when rendered)"""
    from plasTeX.TeX import TeX
    table = {}
    pkgdir = package_dir() if src.startswith(PKGDIR_MARK) else None
    overrides = {('general', 'packages-dirs'): [pkgdir]} if pkgdir else None
    terms = terms_file() if src.startswith(TERMS_MARK) else None
    if terms:
        overrides = {('document', 'lang-terms'): [terms]}
    if not render:
        tex = TeX()
        install_custom(tex, tex.ownerDocument)
        if pkgdir:
            tex.ownerDocument.config['general']['packages-dirs'] = [pkgdir]
        if terms:
            tex.ownerDocument.config['document']['lang-terms'] = [terms]
        tex.input(src)
        try:
            doc = tex.parse()
            xml = doc.toXML()
            err = None
        except Exception as e:
            xml = ''
            err = type(e).__name__ + ':' + str(e)[:100]
        return {'xml': R.canon_ids(xml, table), 'files': {}, 'error': err}
    try:
        out = R.render(src, renderer, overrides=overrides, before_parse=install_custom)
    except Exception as e:
        # the document was not processed to completion (some renderers raise on some documents: Text on narrow table
        # cells, ManPage on verbatim ...): outside the property; take the renderer's mix-ins off Node again, which
        # Renderer.render does at its end, so that the other documents of this worker are not affected
        unmix_after_failed_render(renderer)
        return {'xml': '', 'files': {}, 'error': type(e).__name__ + ':' + str(e)[:100]}
    try:
        xml = R.canon_ids(out.doc.toXML(), table)
        pages = read_files(out.outdir)
        files = {n: R.canon_ids(pages[n], table) for n in sorted(pages)}
        return {'xml': xml, 'files': files, 'error': None}
    finally:
        out.cleanup()


def fresh(src, render, renderer):
    key = hashlib.sha1((src + str(render) + renderer).encode('utf-8', 'surrogatepass')).hexdigest()
    if key in _cache:
        return _cache[key]
    env = dict(os.environ)
    p = subprocess.run([sys.executable, '-m', 'pvmon.props.c17'], input=json.dumps({'src': src, 'render': render, 'renderer': renderer}),
                       capture_output=True, text=True, env=env, timeout=200)
    if p.returncode != 0:
        raise RuntimeError('fresh subprocess failed: ' + p.stderr[-400:])
    res = json.loads(p.stdout)
    if len(_cache) < 400:
        _cache[key] = res
    return res


def holder_key(h):
    """mechanism key of a changed holder"""
    mod_cls, attr = h.rsplit('.', 1)
    cls = mod_cls.split('.')[-1]
    if attr == 'value':
        return 'leak:register-value'
    if cls in ('theindex', 'printindex', 'bibliography') and attr in ('counter', 'level'):
        return 'leak:%s.%s-patched-by-document-class' % (cls, attr)
    if attr == 'columnTypes':
        return 'leak:ColumnType.columnTypes'
    if cls == 'MathShift' and attr == 'inEnv':
        return 'leak:MathShift.inEnv'
    if cls == 'List' and attr == 'depth':
        return 'leak:List.depth'
    if cls == 'ParameterCommand' and attr in ('enabled', '_enablelevel'):
        return 'leak:ParameterCommand.enabled'
    if attr == 'disableMath':
        return 'leak:disableMath'
    if mod_cls.startswith('#'):
        return 'leak:%s.%s' % (mod_cls, attr)
    return 'leak:%s.%s' % (cls, attr)


def run(case, st):
    common.plastex_reset()
    base = S.snapshot()
    pre = S.diff(_S0, base)
    if pre:
        st.notes['state-not-clean-before-sequence:' + ','.join(h for h, a, b in pre)[:200]] += 1
    kinds = []
    leaks = {}
    try:
        for name, src in case['A']:
            kinds.append(name)
            st.feature('A-kind', name)
            try:
                process(src, case['render'] and not name.startswith('open-') and name not in ('verbatim-open', 'catcodes'), case['renderer'])
            except common.CaseTimeout:
                raise
            except Exception:
                pass
            snap = S.snapshot()
            st.counters['snapshots_compared'] += 1
            for h, a, b in S.diff(base, snap):
                leaks.setdefault(holder_key(h), (h, a, b, name))
        bname, bsrc = case['B']
        st.feature('B-kind', bname)
        got = process(bsrc, case['render'], case['renderer'])
        again = process(bsrc, case['render'], case['renderer'])
        snap = S.snapshot()
        st.counters['snapshots_compared'] += 1
        for h, a, b in S.diff(base, snap):
            leaks.setdefault(holder_key(h), (h, a, b, 'B:' + bname))
        want = fresh(bsrc, case['render'], case['renderer'])
        st.counters['differential_comparisons'] += 1
    finally:
        common.plastex_reset()
    for key, (h, a, b, who) in leaks.items():
        st.violation(key, case, 'after processing a %s document the holder %s is %r (initially %r); sequence %r' % (who, h, b[1], a[1], kinds))
    if got != want:
        what = diff_summary(want, got)
        key = 'differential:B-differs-after-A' + ('/' + '+'.join(sorted(leaks)) if leaks else '/no-holder-changed')
        st.violation(key, case, 'B (%s) processed after %r differs from B processed alone in a fresh interpreter: %s' % (bname, kinds, what))
    if again != got:
        key = 'differential:B-twice-differs' + ('/' + '+'.join(sorted(leaks)) if leaks else '/no-holder-changed')
        st.violation(key, case, 'processing B (%s) twice in a row gives different results: %s' % (bname, diff_summary(got, again)))
    hostile = any(not k.startswith('generated') and k not in ('program', 'probe') for k in kinds) or len(set(k for k in kinds if k.startswith('generated') or k.startswith('class'))) > 1
    return {'nontrivial': hostile, 'sample': {'A': kinds, 'B': case['B'][0], 'render': case['render']}}


def diff_summary(a, b):
    if a.get('error') != b.get('error'):
        return 'error %r vs %r' % (a.get('error'), b.get('error'))
    if a['xml'] != b['xml']:
        x, y = a['xml'], b['xml']
        k = 0
        while k < min(len(x), len(y)) and x[k] == y[k]:
            k += 1
        return 'tree differs at %d: fresh %r vs %r' % (k, x[max(0, k - 60):k + 60], y[max(0, k - 60):k + 60])
    if sorted(a['files']) != sorted(b['files']):
        return 'file sets differ: %r vs %r' % (sorted(a['files']), sorted(b['files']))
    for n in a['files']:
        if a['files'][n] != b['files'][n]:
            x, y = a['files'][n], b['files'][n]
            k = 0
            while k < min(len(x), len(y)) and x[k] == y[k]:
                k += 1
            return 'file %s differs at %d: fresh %r vs %r' % (n, k, x[max(0, k - 60):k + 60], y[max(0, k - 60):k + 60])
    return 'identical?'


if __name__ == '__main__':
    import logging
    logging.disable(logging.CRITICAL)
    c = json.loads(sys.stdin.read())
    print(json.dumps(process(c['src'], c['render'], c['renderer'])))
