"""C06 -- the document tree stays a consistent tree under any sequence of DOM edits.

Monitor shape: history + executable model (list-of-lists) and an invariant walk
run from a wrapper on every real mutator (and its aliases).  Operation
sequences are generated on the *model only* (so generation never consults the
code under test), executed on real plasTeX.DOM objects, and after every
operation every container of the pool is compared with the model: child order by
identity, parent links, owner document and all derived views.

Preconditions (from the statement: "applied with detached or fragment
arguments"): the node argument of an insertion is a detached node that is not an
ancestor of the receiver, a child of the receiver (move; insertBefore /
insertAfter / replaceChild only), or a detached fragment (consumed: its pool
slot is refilled with a fresh empty fragment); reference children exist and
indexes are in range.
"""
import itertools
import os
from .. import common
from ..instrument import wrap

PROP = 'C06'
LEVEL = 'exploration'
RULE = ('operation sequences over a node pool (document, elements, text nodes, free fragments, one attribute-held fragment): '
        'exhaustive over all valid sequences up to length 3 on a 6-node pool and up to length 3 (quick) / 5 (thorough) on a 4-node pool, random walks up to length 40 '
        'on the full pool; operations append/appendChild, insert, insertBefore, insertAfter, replaceChild, removeChild/remove, pop, '
        '__setitem__ (i>=0 and i<0), extend, +=, normalize, cloneNode(deep/shallow), attribute assignment of a fragment.  A case is '
        'non-trivial when it contains at least 2 operations that changed the model; distinct by content hash of the operation list.')
ASSUMPTIONS = ['list-of-lists model in pvmon/props/c06.py', 'children of a DocumentFragment receiver are judged on order and owner only (documented transparency)',
               'position comparison is judged only for nodes attached below the document through element containers, and for never-attached nodes (removed nodes keep a stale parentNode by design of pop())']
MUTATORS = ['append', 'insert', 'insertBefore', 'insertAfter', 'replaceChild', 'removeChild', 'pop', '__setitem__', 'extend', 'normalize', 'cloneNode']
DECIDING_HOOKS = ['Node.' + m for m in MUTATORS]

P_DISC, P_PREC, P_FOLL, P_CONTAINS, P_CONTAINED, P_SAME = 1, 2, 4, 8, 16, 32


def budget(tier):
    return {'n': 8000 if tier == 'quick' else 300000, 'case_timeout': 30}


_hookstate = {'world': None, 'depth': 0}


def setup(st):
    from plasTeX.DOM import Node

    def before(self, *a, **k):
        _hookstate['depth'] += 1

    def after(tok, res, exc, self, *a, **k):
        _hookstate['depth'] -= 1
        w = _hookstate['world']
        # invariant at the hook: after an outermost mutator returned normally the
        # receiver lists no child twice and (for element/document receivers)
        # every child names the receiver as parent
        if w is not None and exc is None and _hookstate['depth'] == 0 and not w.in_shallow:
            kids = list(self.childNodes)
            ids = [id(x) for x in kids]
            if len(set(ids)) != len(ids):
                w.hook_viol.append('receiver lists a child twice after the call')
            if self.nodeType in (Node.ELEMENT_NODE, Node.DOCUMENT_NODE):
                for c in kids:
                    if c.parentNode is not self:
                        w.hook_viol.append('child %r of receiver does not name it as parent' % (c,))
                        break
            st.counters['hook_invariant_walks'] += 1
    for m in MUTATORS:
        wrap(Node, m, before=before, after=after, stats=st, hook='Node.' + m)


def anchors():
    from plasTeX import DOM
    N = DOM.Node
    d = {('Node.' + m): getattr(N, m) for m in MUTATORS}
    d.update({'_previousSibling': DOM._previousSibling, '_nextSibling': DOM._nextSibling, '_compareDocumentPosition': DOM._compareDocumentPosition,
              '_getElementsByTagName': DOM._getElementsByTagName, 'Node.textContent': N.textContent, 'Node.allChildNodes': N.allChildNodes,
              'Node.appendText': N.appendText, 'NamedNodeMap._resetPosition': DOM.NamedNodeMap._resetPosition, 'CharacterData.cloneNode': DOM.CharacterData.cloneNode})
    return d


# ---------------------------------------------------------------------------
# model

class Model(object):
    def __init__(self, pool):
        """pool: list of (kind, tag-or-value)"""
        self.kind, self.kids, self.par, self.tag, self.val = {}, {}, {}, {}, {}
        self.attr = {}           # element id -> fragment id held in attributes['arg']
        self.held = {}           # fragment id -> element id
        self.ever = set()        # ids that were ever attached somewhere
        self.n = 0
        for kind, x in pool:
            self.new(kind, x)

    def new(self, kind, x=None):
        i = self.n
        self.n += 1
        self.kind[i] = kind
        self.par[i] = None
        if kind == 'text':
            self.val[i] = x
        else:
            self.kids[i] = []
            if kind == 'elem':
                self.tag[i] = x
        return i

    def containers(self):
        return [i for i in self.kind if self.kind[i] != 'text']

    def anc_or_self(self, r):
        out = set()
        while r is not None:
            out.add(r)
            r = self.par[r] if r not in self.held else self.held[r]
        return out

    def args_for(self, r, allow_child):
        """candidate node arguments for an insertion into r"""
        banned = self.anc_or_self(r)
        out = []
        for i in self.kind:
            if i in banned or self.kind[i] == 'doc' or i in self.held:
                continue
            if self.par[i] is None:
                out.append(i)
            elif allow_child and self.par[i] == r:
                out.append(i)
        return out

    def valid_ops(self, full=True):
        ops = []
        for r in self.containers():
            k = self.kids[r]
            n = len(k)
            det = self.args_for(r, False)
            for x in det:
                ops.append(('append', r, x))
                if full:
                    ops.append(('appendChild', r, x))
                # positions as list.insert understands them: also past the end (clamped) and counted from the end
                for i in sorted(set([0, n // 2, n] + ([n + 1, n + 3, -1, -n - 1] if full else []))):
                    ops.append(('insert', r, i, x))
                for i in sorted(set([0, n - 1, -1, -n])) if n else []:
                    ops.append(('setitem', r, i, x))
            for x in self.args_for(r, True):
                for j in range(n):
                    if k[j] == x:
                        continue
                    ops.append(('insertBefore', r, x, j))
                    ops.append(('insertAfter', r, x, j))
                    ops.append(('replaceChild', r, x, j))
            for j in range(n):
                ops.append(('removeChild', r, j))
                if full:
                    ops.append(('remove', r, j))
            if n:
                ops.append(('pop', r, None))
                ops.append(('pop', r, 0))
                if n > 2:
                    ops.append(('pop', r, 1))
            plain = [x for x in det if self.kind[x] != 'frag']
            if len(plain) >= 2:
                ops.append(('extend', r, plain[:2]))
                ops.append(('iadd', r, plain[-2:]))
            for x in det:
                if self.kind[x] == 'frag' and self.kids[x]:
                    ops.append(('extend', r, [x]))
            ops.append(('normalize', r))
            if self.kind[r] == 'elem':
                # a clone shares its attribute map's values with the original; elements whose
                # subtree holds an attribute fragment are not cloned (the model stays a tree)
                if r not in self.attr and not any(c in self.attr for c in self.preorder(r)):
                    ops.append(('clone', r, True))
                    ops.append(('clone', r, False))
                for x in det:
                    if self.kind[x] == 'frag':
                        ops.append(('setattr', r, x))
        return ops

    # -- transitions ------------------------------------------------------
    def items_of(self, x):
        if self.kind[x] == 'frag':
            items = list(self.kids[x])
            self.kids[x] = []
            return items
        return [x]

    def place(self, r, idx, x):
        items = self.items_of(x)
        self.kids[r][idx:idx] = items
        for it in items:
            self.par[it] = r
            self.ever.add(it)
        return items

    def apply(self, op):
        name, r = op[0], op[1]
        k = self.kids[r]
        if name in ('append', 'appendChild'):
            self.place(r, len(k), op[2])
        elif name == 'insert':
            self.place(r, op[2], op[3])
        elif name in ('insertBefore', 'insertAfter', 'replaceChild'):
            x, ref = op[2], k[op[3]]
            if self.par[x] == r and x in k:
                k.remove(x)
            idx = k.index(ref)
            if name == 'insertAfter':
                idx += 1
            if name == 'replaceChild':
                k.pop(idx)
                self.par[ref] = None
            self.place(r, idx, x)
        elif name in ('removeChild', 'remove'):
            c = k.pop(op[2])
            self.par[c] = None
        elif name == 'pop':
            c = k.pop() if op[2] is None else k.pop(op[2])
            self.par[c] = None
        elif name == 'setitem':
            i = op[2]
            idx = i if i >= 0 else len(k) + i
            old = k.pop(idx)
            self.par[old] = None
            self.place(r, idx, op[3])
        elif name in ('extend', 'iadd'):
            for x in op[2]:
                self.place(r, len(self.kids[r]), x)
        elif name == 'setattr':
            x = op[2]
            old = self.attr.get(r)
            if old is not None:
                del self.held[old]
            self.attr[r] = x
            self.held[x] = r
        # normalize / clone are resolved against the real tree by the executor
        return self

    def preorder(self, r, through_attrs=False):
        out = []
        if through_attrs and r in self.attr:
            for c in self.kids[self.attr[r]]:
                out.append(c)
                if self.kind[c] != 'text':
                    out.extend(self.preorder(c, through_attrs))
        for c in self.kids[r]:
            out.append(c)
            if self.kind[c] != 'text':
                out.extend(self.preorder(c, through_attrs))
        return out

    def text(self, r):
        if self.kind[r] == 'text':
            return self.val[r]
        return ''.join(self.text(c) for c in self.kids[r])


FULL_POOL = [('doc', None), ('elem', 'x'), ('elem', 'y'), ('elem', 'x'), ('text', 'a'), ('text', 'b'), ('text', ''), ('frag', None), ('frag', None)]
SMALL_POOL = [('doc', None), ('elem', 'x'), ('elem', 'y'), ('text', 'a'), ('text', 'b'), ('frag', None)]
TINY_POOL = [('doc', None), ('elem', 'x'), ('text', 'a'), ('frag', None)]


def model_step(m, op):
    """apply op to the model, including the structural effect of normalize/clone
    (new ids are allocated in a deterministic order so generation needs no real objects)"""
    if op[0] == 'normalize':
        _model_normalize(m, op[1], set())
        _model_normalize(m, op[1], set())     # the executor calls normalize twice (idempotence)
    elif op[0] == 'clone':
        if op[2]:
            _model_clone(m, op[1])
    else:
        m.apply(op)


def _model_normalize(m, r, seen):
    if r in seen:
        return
    seen.add(r)
    if m.kind[r] == 'elem' and r in m.attr:
        _model_normalize(m, m.attr[r], seen)
    new = []
    run = []

    def flush():
        if run:
            t = m.new('text', ''.join(m.val[i] for i in run))
            for i in run:
                m.par[i] = None
            m.par[t] = r
            m.ever.add(t)
            new.append(t)
            del run[:]
    for c in m.kids[r]:
        if m.kind[c] == 'text':
            run.append(c)
        else:
            flush()
            new.append(c)
            _model_normalize(m, c, seen)
    flush()
    m.kids[r] = new


def _model_clone(m, r):
    if m.kind[r] == 'text':
        t = m.new('text', m.val[r])
        m.ever.add(t)
        return t
    c = m.new(m.kind[r], m.tag.get(r))
    m.ever.add(c)      # a clone inherits the original's parentNode: not a "never attached" node
    if r in m.attr:
        # attributes are shared by reference in a clone (NamedNodeMap.update); the model
        # does not add the shared fragment to the clone
        pass
    for k in m.kids[r]:
        kc = _model_clone(m, k)
        m.kids[c].append(kc)
        m.par[kc] = c
        m.ever.add(kc)
    return c


def exhaustive(pool, L, shard, nshards):
    """DFS over the model; yields maximal sequences (every prefix is checked when run).
    The work is dealt out by the index of the length-2 prefix (dealing by the first operation alone left one shard with
    a third of the space)."""
    def extend(seq):
        m = Model(pool)
        for op in seq:
            model_step(m, op)
        return m.valid_ops(full=False)
    split = 2 if L >= 2 else 1
    roots = [[op] for op in extend([])]
    if split == 2:
        r2 = []
        for seq in roots:
            nxt = extend(seq)
            if not nxt:
                r2.append(seq)
            r2.extend(seq + [op] for op in nxt)
        roots = r2
    for ti, root in enumerate(roots):
        if ti % nshards != shard:
            continue
        stack = [root]
        while stack:
            seq = stack.pop()
            if len(seq) >= L:
                yield seq
                continue
            nxt = extend(seq)
            if not nxt:
                yield seq
                continue
            for op in nxt:
                stack.append(seq + [op])


def random_seq(r, pool, maxlen):
    m = Model(pool)
    seq = []
    for _ in range(r.randint(2, maxlen)):
        ops = m.valid_ops(full=True)
        if not ops:
            break
        # choose an operation kind first so rare kinds are not drowned by insert variants
        kinds = sorted(set(o[0] for o in ops))
        kd = r.choice(kinds)
        op = r.choice([o for o in ops if o[0] == kd])
        seq.append(op)
        model_step(m, op)
        if m.n > 40:
            break
    return seq


def cases(seed, tier, shard, nshards):
    b = budget(tier)
    # quick: small pool len<=3, tiny pool len<=3; thorough: small pool len<=3, tiny pool len<=5 (the bound of the quantifier)
    for seq in exhaustive(SMALL_POOL, 3, shard, nshards):
        yield {'pool': 'small', 'ops': seq, 'exh': 1}
    for seq in exhaustive(TINY_POOL, 3 if tier == 'quick' else 5, shard, nshards):
        yield {'pool': 'tiny', 'ops': seq, 'exh': 1}
    for i in common.sharded(b['n'], shard, nshards):
        r = common.rng_for(seed, PROP, i)
        yield {'pool': 'full', 'ops': random_seq(r, FULL_POOL, r.choice([6, 12, 40]))}


# ---------------------------------------------------------------------------
# executor on the real objects

class World(object):
    def __init__(self, pool):
        from plasTeX import DOM
        self.DOM = DOM
        self.m = Model(pool)
        self.obj = {}
        self.hook_viol = []
        self.in_shallow = False
        import collections
        self.st_counters = collections.Counter()
        doc = None
        for i, (kind, x) in enumerate(pool):
            if kind == 'doc':
                doc = DOM.Document()
                self.obj[i] = doc
        self.doc = doc
        for i, (kind, x) in enumerate(pool):
            if kind == 'elem':
                self.obj[i] = doc.createElement(x)
            elif kind == 'text':
                self.obj[i] = doc.createTextNode(x)
            elif kind == 'frag':
                self.obj[i] = doc.createDocumentFragment()


POOLS = {'full': FULL_POOL, 'small': SMALL_POOL, 'tiny': TINY_POOL}


def fail(st, case, step, op, aspect, msg):
    name = op[0]
    feat = ''
    if name == 'setitem':
        feat = '-neg' if op[2] < 0 else ''
    if name == 'clone':
        feat = '-deep' if op[2] else '-shallow'
    key = '%s%s/%s' % (name, feat, aspect)
    st.violation(key, case, 'step %d op=%r: %s' % (step, op, msg))


def run(case, st):
    w = World(POOLS[case['pool']])
    if case.get('exh'):
        st.counters['exhaustive_maximal_sequences_%s_pool' % case['pool']] += 1
    _hookstate['world'] = w
    _hookstate['depth'] = 0
    changed = 0
    try:
        for step, op in enumerate(case['ops']):
            op = tuple(op)
            ok = execute(w, op, st, case, step)
            if not ok:
                return {'nontrivial': True}
            if w.hook_viol:
                fail(st, case, step, op, 'hook-invariant', w.hook_viol[0])
                return {'nontrivial': True}
            try:
                bad = check_world(w)
            except common.CaseTimeout:
                raise
            except Exception as e:
                # a derived view (firstChild, siblings, textContent, ...) that raises inside plasTeX is an answer that disagrees with the
                # list model; an exception of the harness itself stays a harness error
                import traceback as _tb
                last = _tb.extract_tb(e.__traceback__)[-1]
                if not last.filename.startswith(common.REPO):
                    raise
                bad = ('view-raises-' + type(e).__name__, '%s at %s:%d (%s)' % (e, os.path.basename(last.filename), last.lineno, last.line))
            if bad:
                fail(st, case, step, op, bad[0], bad[1])
                return {'nontrivial': True}
            if op[0] not in ('normalize', 'clone'):
                changed += 1
            st.feature('op', op[0])
    finally:
        for k_, v_ in w.st_counters.items():
            st.counters[k_] += v_
        _hookstate['world'] = None
    st.feature('receiver-kind/op', '%s/%s' % (w.m.kind[case['ops'][-1][1]], case['ops'][-1][0]))
    return {'nontrivial': changed >= 2}


def execute(w, op, st, case, step):
    m, O = w.m, w.obj
    name, r = op[0], op[1]
    R = O[r]
    try:
        if name in ('append', 'appendChild'):
            getattr(R, name)(O[op[2]])
            consumed = [op[2]]
        elif name == 'insert':
            R.insert(op[2], O[op[3]])
            consumed = [op[3]]
        elif name in ('insertBefore', 'insertAfter', 'replaceChild'):
            ref = O[m.kids[r][op[3]]]
            res = getattr(R, name)(O[op[2]], ref)
            want = ref if name == 'replaceChild' else O[op[2]]
            if res is not want:
                fail(st, case, step, op, 'return-value', 'returned %r' % (res,))
                return False
            consumed = [op[2]]
        elif name in ('removeChild', 'remove'):
            c = O[m.kids[r][op[2]]]
            res = getattr(R, name)(c)
            if res is not c:
                fail(st, case, step, op, 'return-value', 'returned %r instead of the removed child' % (res,))
                return False
            consumed = []
        elif name == 'pop':
            exp = O[m.kids[r][-1 if op[2] is None else op[2]]]
            res = R.pop() if op[2] is None else R.pop(op[2])
            if res is not exp:
                fail(st, case, step, op, 'return-value', 'popped %r instead of %r' % (res, exp))
                return False
            consumed = []
        elif name == 'setitem':
            R[op[2]] = O[op[3]]
            consumed = [op[3]]
        elif name == 'extend':
            xs = op[2]
            if len(xs) == 1 and m.kind[xs[0]] == 'frag':
                R.extend(O[xs[0]])
            else:
                R.extend([O[x] for x in xs])
            consumed = list(xs)
        elif name == 'iadd':
            R += [O[x] for x in op[2]]
            consumed = list(op[2])
        elif name == 'setattr':
            R.attributes['arg'] = O[op[2]]
            consumed = []
        elif name == 'normalize':
            return do_normalize(w, op, st, case, step)
        elif name == 'clone':
            return do_clone(w, op, st, case, step)
        else:
            raise AssertionError(op)
    except common.CaseTimeout:
        raise
    except Exception as e:
        import traceback
        fail(st, case, step, op, 'raises-' + type(e).__name__, traceback.format_exc()[-600:])
        return False
    m.apply(op)
    # a fragment argument is consumed: refill its slot with a fresh empty fragment
    for x in consumed:
        if m.kind[x] == 'frag':
            # the spent fragment still lists the nodes it handed over; taking them off that list (every other time) is the
            # spent fragment's own business and must not touch their place in the tree (checked by check_world right after)
            spent = O[x]
            if step % 2 == 0 and spent is not None and len(spent.childNodes):
                try:
                    while len(spent.childNodes):
                        spent.pop()
                    st.counters['spent_fragments_emptied'] += 1
                except common.CaseTimeout:
                    raise
                except Exception as e:
                    fail(st, case, step, op, 'spent-fragment-pop-raises-' + type(e).__name__, repr(e))
                    return False
            O[x] = w.doc.createDocumentFragment()
    return True


def do_normalize(w, op, st, case, step):
    m, O = w.m, w.obj
    r = op[1]
    R = O[r]
    before_text = str(R.textContent)
    exp_text = m.text(r)
    try:
        R.normalize()
    except common.CaseTimeout:
        raise
    except Exception as e:
        fail(st, case, step, op, 'raises-' + type(e).__name__, repr(e))
        return False
    # structural expectation: elements keep identity/order, each maximal text run -> one text node
    n0 = m.n
    _model_normalize(m, r, set())
    # bind new model text ids to the real new text nodes by walking both
    err = _bind_new_text(w, r, n0, set())
    if err:
        fail(st, case, step, op, 'structure', err)
        return False
    if str(R.textContent) != before_text or before_text != exp_text:
        fail(st, case, step, op, 'textContent-changed', '%r -> %r (model %r)' % (before_text, str(R.textContent), exp_text))
        return False
    # idempotence: second call changes nothing structurally
    shape1 = _shape(R)
    R.normalize()
    n1 = m.n
    _model_normalize(m, r, set())
    err = _bind_new_text(w, r, n1, set())
    if err or _shape(R) != shape1:
        fail(st, case, step, op, 'not-idempotent', '%r vs %r %s' % (shape1, _shape(R), err))
        return False
    return True


def _shape(N):
    if N.nodeType == N.TEXT_NODE:
        return ('t', str(N))
    out = [('e', id(N))]
    a = N.attributes
    if a and 'arg' in a:
        out.append(('attr', tuple(_shape(c) for c in a['arg'])))
    out.append(tuple(_shape(c) for c in N.childNodes))
    return tuple(out)


def _bind_new_text(w, r, n0, seen):
    """after the model normalised container r (allocating ids >= n0 for merged text), walk the
    real container and bind those ids; returns an error string on structural disagreement"""
    if r in seen:
        return None
    seen.add(r)
    m, O = w.m, w.obj
    if m.kind[r] == 'elem' and r in m.attr:
        e = _bind_new_text(w, m.attr[r], n0, seen)
        if e:
            return e
    real = list(O[r].childNodes)
    exp = m.kids[r]
    if len(real) != len(exp):
        return 'container %d: %d children, model %d (%r)' % (r, len(real), len(exp), [str(x) if x.nodeType == 3 else x.nodeName for x in real])
    for c, rc in zip(exp, real):
        if m.kind[c] == 'text':
            if rc.nodeType != rc.TEXT_NODE or str(rc) != m.val[c]:
                return 'container %d: expected merged text %r, found %r' % (r, m.val[c], rc)
            if c >= n0 or c not in O:
                O[c] = rc
            elif O[c] is not rc:
                O[c] = rc
        else:
            if O[c] is not rc:
                return 'container %d: element order/identity changed' % r
            e = _bind_new_text(w, c, n0, seen)
            if e:
                return e
    return None


def do_clone(w, op, st, case, step):
    m, O = w.m, w.obj
    r, deep = op[1], op[2]
    R = O[r]
    if not deep:
        w.in_shallow = True
        try:
            c = R.cloneNode(False)
        except common.CaseTimeout:
            raise
        except Exception as e:
            fail(st, case, step, op, 'raises-' + type(e).__name__, repr(e))
            return False
        finally:
            w.in_shallow = False
        if c is R or c.nodeName != R.nodeName:
            fail(st, case, step, op, 'clone', 'shallow clone is the same object / other name')
            return False
        # a shallow clone lists the original's children without owning them: editing the clone's list must leave the
        # original's tree as it is (re-checked by check_world)
        if step % 2 == 0 and len(c.childNodes):
            w.in_shallow = True      # (the hook's "children name the receiver as parent" does not apply to a shallow clone, by design)
            try:
                if step % 4 == 0:
                    while len(c.childNodes):
                        c.pop()
                else:
                    c.removeChild(c.childNodes[0])
                st.counters['shallow_clones_edited'] += 1
            except common.CaseTimeout:
                raise
            except Exception as e:
                fail(st, case, step, op, 'shallow-clone-edit-raises-' + type(e).__name__, repr(e))
                return False
            finally:
                w.in_shallow = False
        return True      # the original's tree is re-checked by check_world
    try:
        c = R.cloneNode(True)
    except common.CaseTimeout:
        raise
    except Exception as e:
        fail(st, case, step, op, 'raises-' + type(e).__name__, repr(e))
        return False
    if not (c == R) or not R.isEqualNode(c):
        fail(st, case, step, op, 'clone-not-equal', 'deep clone != original')
        return False
    # identity-disjoint
    orig_ids = set(id(x) for x in [R] + list(R.allChildNodes))
    for x in [c] + list(c.allChildNodes):
        if id(x) in orig_ids:
            fail(st, case, step, op, 'clone-not-disjoint', 'node %r shared between clone and original' % (x,))
            return False
    # register the clone as a new detached subtree of the model, binding real objects
    cid = _model_clone(m, r)
    err = _bind_clone(w, cid, c)
    if err:
        fail(st, case, step, op, 'clone-structure', err)
        return False
    return True


def _bind_clone(w, cid, c):
    m, O = w.m, w.obj
    O[cid] = c
    if m.kind[cid] == 'text':
        if c.nodeType != c.TEXT_NODE or str(c) != m.val[cid]:
            return 'text clone differs'
        return None
    real = list(c.childNodes)
    if len(real) != len(m.kids[cid]):
        return 'clone has %d children, model %d' % (len(real), len(m.kids[cid]))
    for k, rk in zip(m.kids[cid], real):
        e = _bind_clone(w, k, rk)
        if e:
            return e
    return None


def check_world(w):
    """compare every container of the pool with the model; returns (aspect, message) or None"""
    m, O = w.m, w.obj
    N = w.DOM.Node
    doc = w.doc
    for r in m.containers():
        R = O[r]
        real = list(R.childNodes)
        exp = [O[c] for c in m.kids[r]]
        if len(real) != len(exp) or any(a is not b for a, b in zip(real, exp)):
            return ('order', 'container %d(%s): children %r, model %r' % (r, m.kind[r], _names(real), _names(exp)))
        if len(R) != len(exp) or [x for x in R] != real and any(a is not b for a, b in zip(list(R), real)):
            return ('order', 'container %d: __len__/__iter__ disagree with childNodes' % r)
        for c in real:
            if c.ownerDocument is not doc:
                return ('owner', 'container %d(%s): child %r has ownerDocument %r' % (r, m.kind[r], c, c.ownerDocument))
        if m.kind[r] == 'frag':
            continue
        for j, c in enumerate(real):
            if c.parentNode is not R:
                return ('parent', 'container %d(%s): child %d %r names %r as parent' % (r, m.kind[r], j, c, c.parentNode))
        # derived views
        fc, lc = R.firstChild, R.lastChild
        if (fc is not (real[0] if real else None)) or (lc is not (real[-1] if real else None)):
            return ('first-last', 'container %d: firstChild/lastChild %r %r' % (r, fc, lc))
        for j, c in enumerate(real):
            ps, ns = c.previousSibling, c.nextSibling
            if ps is not (real[j - 1] if j else None) or ns is not (real[j + 1] if j + 1 < len(real) else None):
                return ('sibling', 'container %d: child %d siblings %r/%r' % (r, j, ps, ns))
        if str(R.textContent) != m.text(r):
            return ('textContent', 'container %d: textContent %r, model %r' % (r, str(R.textContent), m.text(r)))
        pre = m.preorder(r)
        allc = list(R.allChildNodes)
        if len(allc) != len(pre) or any(a is not O[b] for a, b in zip(allc, pre)):
            return ('allChildNodes', 'container %d: allChildNodes %r, model %r' % (r, _names(allc), pre))
        prea = m.preorder(r, through_attrs=True)
        for tag in ('x', 'y'):
            got = list(R.getElementsByTagName(tag))
            want = [O[i] for i in prea if m.kind[i] == 'elem' and m.tag[i] == tag]
            if len(got) != len(want) or any(a is not b for a, b in zip(got, want)):
                return ('getElementsByTagName', 'container %d tag %s: %r, model %r' % (r, tag, _names(got), _names(want)))
    # position comparison inside the document tree (element containers only)
    order = [0] + _elem_preorder(m, 0)
    order = order[:14]
    pos = {n: i for i, n in enumerate(order)}
    for a in order:
        anc_a = _ancestors(m, a)
        for b in order:
            got = O[a].compareDocumentPosition(O[b])
            if a == b:
                want = P_SAME
            elif b in anc_a:
                want = P_CONTAINS
            elif a in _ancestors(m, b):
                want = P_CONTAINED
            elif pos[b] < pos[a]:
                want = P_PREC
            else:
                want = P_FOLL
            if got != want:
                return ('compareDocumentPosition', 'a=%d b=%d: got %#x, model %#x (order %r)' % (a, b, got, want, order))
    # a node no container lists has no siblings (whatever its parent link still says after a removal)
    for i in m.kind:
        if m.par[i] is None and m.kind[i] in ('elem', 'text') and i in O and i not in m.held:
            try:
                ps, ns = O[i].previousSibling, O[i].nextSibling
            except Exception as e:
                return ('sibling', 'unlisted node %d: sibling navigation raises %r' % (i, e))
            w.st_counters['unlisted_nodes_sibling_checked'] += 1
            if ps is not None or ns is not None:
                return ('sibling', 'node %d is listed by no container, its siblings are %r/%r' % (i, ps, ns))
    for i in m.kind:
        if i not in m.ever and m.par[i] is None and m.kind[i] != 'doc' and i not in m.held and order[1:]:
            got = O[order[1]].compareDocumentPosition(O[i])
            if got != P_DISC:
                return ('compareDocumentPosition', 'never-attached node %d vs attached %d: got %#x, expected DISCONNECTED' % (i, order[1], got))
    return None


def _elem_preorder(m, r):
    out = []
    for c in m.kids[r]:
        out.append(c)
        if m.kind[c] == 'elem':
            out.extend(_elem_preorder(m, c))
        elif m.kind[c] == 'frag':
            pass
    return out


def _ancestors(m, a):
    out = set()
    p = m.par[a]
    while p is not None:
        out.add(p)
        p = m.par[p]
    return out


def _names(nodes):
    return [('#text:' + str(x)) if getattr(x, 'nodeType', None) == 3 else getattr(x, 'nodeName', repr(x)) for x in nodes]


def evidence_extra(merged, feats, tier):
    return {'exhaustive_part': 'all valid operation sequences of length <= 3 over the small pool %r and of length <= %d over the tiny pool %r '
                               '(maximal sequences counted in monitor_counters; every prefix is checked while a sequence runs)'
                               % (SMALL_POOL, 3 if tier == 'quick' else 5, TINY_POOL),
            'exhaustive': False}
