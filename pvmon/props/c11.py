"""C11 -- verbatim text and mathematics pass through character-for-character.

(a) verbatim / verbatim* environments: textContent must equal the exact source
    substring between the delimiters; a probe paragraph after the environment
    must be processed normally again (curly quotes substituted, context depth
    back).
(b) \\verb / \\verb*: every delimiter LaTeX allows x bodies over all other
    characters.
(c) math source: formula ASTs printed in $ $, \\( \\), \\[ \\], equation and inside
    text arguments; the token sequence (reference lexer, blanks dropped) of the
    reconstructed source must equal that of the written formula with user
    macros expanded (ground truth by construction).
(d) the same formulas through the two hand-over points the statement names:
    the text inside the HTML5 page (read back with html.parser, charrefs
    decoded -- what MathJax finds in the DOM) and the code Imager.newImage
    passes to writeImage (what LaTeX would compile for the image)."""
import re, traceback
from .. import common
from ..gen import mathgen
from ..reftex import lexer as L

PROP = 'C11'
LEVEL = 'exploration'
RULE = ('(a) verbatim bodies of 0-200 characters over printable ASCII, newlines, non-ASCII, ^^ sequences, comment-like and ligature-like sequences and '
        'partial end markers (never the complete \\end{verbatim}); (b) \\verb with each delimiter in the printable ASCII punctuation and digits, '
        'bodies over all other characters; (c) formulas of depth <= 4 over scripts, \\frac, \\sqrt[n], \\left..\\right, array, text boxes, accents, '
        'spacing, big operators, relations < >, user macros, in $ $, \\( \\), \\[ \\], equation and inside \\textbf/\\emph arguments.  Non-trivial = '
        '(a,b) body contains a TeX special character, (c) formula has depth >= 2; distinct by content hash.')
ASSUMPTIONS = ['reference lexer for token sequences of math source', 'user-macro expansion by construction (generator)',
               'plasTeX prints $..$ for \\(..\\) and may print environment delimiters around display formulas: only the payload is compared']
DECIDING_REACH = ['VerbatimEnvironment.invoke', 'verb.invoke', 'Macro.source']
DECIDING_COUNTERS = {'verbatim_bodies': 50, 'verb_bodies': 50, 'formulas': 50, 'html_payloads': 20, 'imager_payloads': 20}


def budget(tier):
    q = tier == 'quick'
    return {'n_verbatim': 2500 if q else 60000, 'n_verb': 1500 if q else 30000, 'n_math': 1500 if q else 30000, 'n_handover': 240 if q else 6000, 'case_timeout': 30}


def setup(st):
    pass


def anchors():
    import plasTeX
    from plasTeX.Base.LaTeX import Verbatim, Math
    from plasTeX.Context import Context
    return {'VerbatimEnvironment.invoke': plasTeX.VerbatimEnvironment.invoke, 'verb.invoke': Verbatim.verb.invoke, 'verb.digest': Verbatim.verb.digest,
            'Context.setVerbatimCatcodes': Context.setVerbatimCatcodes, 'Macro.source': plasTeX.Macro.__dict__['source'].fget,
            'sourceChildren': plasTeX.sourceChildren, 'sourceArguments': plasTeX.sourceArguments, 'mathjax_lt_gt': Math.mathjax_lt_gt,
            'NoCharSubEnvironment.normalize': plasTeX.NoCharSubEnvironment.normalize}


PRINTABLE = ''.join(chr(c) for c in range(32, 127))
SPECIAL = '\\{}$&#^_~%'
PIECES = ['\\textbf{x}', '% not a comment', '---', "``q''", '  ', '\t', '^^M', '^^A', '\\end{verbati', '\\end{verbatimx}', '\\end {verbatim}', '\\END{verbatim}',
          '\\begin{verbatim}', '\\end{document}', '\\endverbatim', '\\endverbatim ', '$$', '&&', '#1', '\\\\', '~', 'é ß λ', '\n', '\n\n', '\n  \n', '{', '}', '\\', '\\verb|x|', '<b>&amp;']


def gen_body(r, maxlen=200):
    s = ''
    n = r.choice([0, 1, 3, 8, 20])
    for _ in range(n):
        k = r.random()
        if k < 0.45:
            s += r.choice(PIECES)
        elif k < 0.8:
            s += ''.join(r.choice(PRINTABLE) for _ in range(r.randint(1, 8)))
        else:
            s += 'Wq%dx' % r.randint(1, 99)
    s = s[:maxlen]
    return s


def cases(seed, tier, shard, nshards):
    b = budget(tier)
    for i in common.sharded(b['n_verbatim'], shard, nshards):
        r = common.rng_for(seed, PROP, i, 'vb')
        star = r.random() < 0.25
        env = 'verbatim*' if star else 'verbatim'
        body = gen_body(r)
        lead = r.choice(['\n', '\n', '\n', '', ' '])
        trail = r.choice(['\n', '\n', ''])
        body = lead + body + trail
        end = '\\end{%s}' % env
        if end in body or ('\\end{verbatim}' in body):
            body = body.replace('\\end{verbatim', '\\end{verbati')
        form = 'command' if (r.random() < 0.15 and not star and '\\endverbatim' not in body and body[:1] in ('\n', ' ')) else 'environment'
        yield {'kind': 'verbatim', 'env': env, 'body': body, 'has_endcmd': ('\\end' + env) in body, 'form': form}
    delims = [c for c in PRINTABLE if not c.isalpha() and c not in '* ']
    for i in common.sharded(b['n_verb'], shard, nshards):
        r = common.rng_for(seed, PROP, i, 'v')
        d = delims[i % len(delims)] if r.random() < 0.7 else r.choice(delims)
        body = ''.join(r.choice(PRINTABLE + 'éλ') for _ in range(r.choice([0, 1, 2, 5, 12])))
        if r.random() < 0.4:
            body += r.choice(PIECES).replace('\n', ' ').replace('\t', ' ')
        body = body.replace(d, '')
        if d == '^' and not body:
            body = 'x'      # \verb^^<char> is the ^^ notation for TeX itself (reduced while the name \verb is scanned)
        yield {'kind': 'verb', 'delim': d, 'body': body, 'star': r.random() < 0.2}
    for i in common.sharded(b['n_math'], shard, nshards):
        r = common.rng_for(seed, PROP, i, 'm')
        g = mathgen.MathGen(r)
        w, e = g.expr(r.choice([1, 2, 3, 4]))
        yield {'kind': 'math', 'written': w, 'expanded': e, 'wrap': r.choice(['$', '$', '\\(', '\\[', 'equation', 'textarg']), 'features': sorted(g.features)}
    for i in common.sharded(b['n_handover'], shard, nshards):
        r = common.rng_for(seed, PROP, i, 'h')
        g = mathgen.MathGen(r)
        w, e = g.expr(r.choice([1, 2, 3, 4]))
        yield {'kind': 'handover', 'written': w, 'expanded': e, 'wrap': r.choice(['$', '\\(', '\\[', 'equation', 'textarg']), 'features': sorted(g.features),
               'renderer_theme': r.choice(['default', 'minimal'])}


# ---------------------------------------------------------------------------

def parse(src):
    from plasTeX.TeX import TeX
    common.plastex_reset()
    tex = TeX()
    tex.input(src)
    return tex.parse()


def run(case, st):
    try:
        if case['kind'] == 'verbatim':
            return run_verbatim(case, st)
        if case['kind'] == 'verb':
            return run_verb(case, st)
        if case['kind'] == 'handover':
            return run_handover(case, st)
        return run_math(case, st)
    finally:
        common.plastex_reset()


def special(s):
    return any(c in s for c in SPECIAL) or '\n\n' in s or '  ' in s or '--' in s


def run_verbatim(case, st):
    env, body = case['env'], case['body']
    if case.get('form') == 'command':
        # the command form used inside environment definitions: \verbatim ... \endverbatim
        src = "\\documentclass{article}\\begin{document}Wq1x\n\n\\begingroup\\verbatim%s\\endverbatim\\endgroup\n``Wq2x'' Wq3x\n\\end{document}" % body
        st.feature('verbatim-form', 'command')
    else:
        src = "\\documentclass{article}\\begin{document}Wq1x\n\n\\begin{%s}%s\\end{%s}\n``Wq2x'' Wq3x\n\\end{document}" % (env, body, env)
    st.counters['verbatim_bodies'] += 1
    try:
        doc = parse(src)
    except common.CaseTimeout:
        raise
    except Exception as e:
        st.violation(vkey(case, 'raises-' + type(e).__name__), case, 'body %r raised %s' % (body, traceback.format_exc()[-400:]))
        return {'nontrivial': True}
    nodes = doc.getElementsByTagName(env)
    if len(nodes) != 1:
        st.violation(vkey(case, 'node-count'), case, 'body %r: %d %s nodes' % (body, len(nodes), env))
        return {'nontrivial': True}
    got = str(nodes[0].textContent)
    if got != body:
        k = 0
        while k < min(len(got), len(body)) and got[k] == body[k]:
            k += 1
        st.violation(vkey(case, 'content'), case, 'verbatim body differs at %d: written %r, reproduced %r' % (k, body[max(0, k - 15):k + 25], got[max(0, k - 15):k + 25]))
        return {'nontrivial': True}
    text = str(doc.textContent)
    after = text[text.find(body) + len(body):] if body in text else text
    if '“Wq2x”' not in after or 'Wq3x' not in after:
        st.violation(vkey(case, 'text-after'), case, 'text after the environment is %r (expected the probe with curly quotes), body %r' % (after[-60:], body))
    if len(doc.context.contexts) != 1:
        st.violation(vkey(case, 'context-depth'), case, 'context depth %d after the document' % len(doc.context.contexts))
    for c in SPECIAL:
        if c in body:
            st.feature('verbatim-char', c)
    return {'nontrivial': special(body), 'sample': {'env': env, 'body': body[:120]}}


def vkey(case, symptom):
    if case.get('has_endcmd'):
        return 'verbatim-command-form-terminator-in-body/' + symptom
    return 'verbatim/' + symptom


def run_verb(case, st):
    d, body = case['delim'], case['body']
    cmd = '\\verb*' if case['star'] else '\\verb'
    src = "\\documentclass{article}\\begin{document}Wq1x %s%s%s%s Wq2x ``Wq3x''\n\\end{document}" % (cmd, d, body, d)
    st.counters['verb_bodies'] += 1
    st.feature('verb-delimiter', d)
    try:
        doc = parse(src)
    except common.CaseTimeout:
        raise
    except Exception as e:
        st.violation(verbkey(case, 'raises-' + type(e).__name__), case, '%r raised %s' % (src, traceback.format_exc()[-300:]))
        return {'nontrivial': True}
    nodes = doc.getElementsByTagName('verb')
    if len(nodes) != 1:
        st.violation(verbkey(case, 'node-count'), case, '%r: %d verb nodes' % (src, len(nodes)))
        return {'nontrivial': True}
    got = str(nodes[0].textContent)
    if got != body:
        st.violation(verbkey(case, 'content'), case, '\\verb with delimiter %r: written %r, reproduced %r' % (d, body, got))
        return {'nontrivial': True}
    text = str(doc.textContent)
    if not re.search(r'Wq2x\s+“Wq3x”', text):
        st.violation(verbkey(case, 'text-after'), case, '\\verb with delimiter %r body %r: text after it is %r' % (d, body, text[-40:]))
    if len(doc.context.contexts) != 1:
        st.violation(verbkey(case, 'context-depth'), case, 'context depth %d' % len(doc.context.contexts))
    return {'nontrivial': special(body) or d in SPECIAL, 'sample': {'delim': d, 'body': body}}


def verbkey(case, symptom):
    if case['delim'] in '$&#^_~%{}\\':
        return 'verb-delimiter-not-category-other/' + symptom
    return 'verb/' + symptom


def toks(s):
    return [t for t in L.tokenize(s, L.Table(L.default_table())) if t[0] != 10 and t != ('cs', 'par')]


def payload(node):
    """formula payload of a math node's reconstructed source (delimiters stripped)"""
    s = node.source
    nm = node.nodeName
    for a, b in (('$', '$'), ('\\(', '\\)'), ('\\[', '\\]'), ('\\begin{%s}' % nm, '\\end{%s}' % nm)):
        t = s.strip()
        if t.startswith(a) and t.endswith(b) and len(t) >= len(a) + len(b):
            return t[len(a):len(t) - len(b)]
    return s


# where the formula stands: in running text, or directly after a command / at the start of an environment whose last declared
# argument is an optional one the author did not give (the scanner looks ahead for `[` there -- \[ is not one)
SURROUND = ['%s', '%s', '%s', '\\begin{itemize}\\item %s\\end{itemize}', '\\begin{enumerate}\\item %s \\end{enumerate}', '\\nopagebreak %s',
            '\\linebreak %s', '\\begin{quote}%s\\end{quote}', '\\begin{center}%s\\end{center}']


def formula_in_text(case):
    w, wrap = case['written'], case['wrap']
    if wrap == '$':
        f, tag = '$%s$' % w, 'math'
    elif wrap == '\\(':
        f, tag = '\\(%s\\)' % w, 'math'
    elif wrap == '\\[':
        f, tag = '\\[ %s \\]' % w, 'displaymath'
    elif wrap == 'equation':
        f, tag = '\\begin{equation} %s \\end{equation}' % w, 'equation'
    else:
        return 'Wq1x \\textbf{Wq3x $%s$ Wq4x} \\emph{Wq5x} Wq2x' % w, 'math'
    sur = SURROUND[common.case_hash(case)[3] % len(SURROUND)]
    return 'Wq1x ' + (sur % f) + ' Wq2x', tag


def math_source(case):
    w, wrap = case['written'], case['wrap']
    pre = mathgen.preamble()
    body, tag = formula_in_text(case)
    return '\\documentclass{article}\\usepackage{amsmath}\n%s\\begin{document}%s\n\\end{document}' % (pre, body), tag


def strip_delims(s2, tag):
    s2 = s2.strip()
    for x, y in (('\\(', '\\)'), ('\\[', '\\]'), ('$', '$'), ('\\begin{%s}' % tag, '\\end{%s}' % tag)):
        if s2.startswith(x) and s2.endswith(y) and len(s2) >= len(x) + len(y):
            return s2[len(x):len(s2) - len(y)]
    return s2


def first_diff(a, b):
    k = 0
    while k < min(len(a), len(b)) and a[k] == b[k]:
        k += 1
    return k


def run_handover(case, st):
    """(d) what reaches MathJax (text of the HTML5 page) and what reaches the image generator (Imager.writeImage)"""
    import os
    from ..obs import render as R
    from plasTeX.Imagers import Imager
    w, e, wrap = case['written'], case['expanded'], case['wrap']
    src, tag = math_source(case)
    want = toks(e)
    st.feature('handover-wrapper', wrap)
    try:
        out = R.render(src, 'HTML5', {('general', 'theme'): case['renderer_theme']})
    except common.CaseTimeout:
        raise
    except Exception as ex:
        st.violation('handover/render-raises-' + type(ex).__name__, case, '%r raised %s' % (w, traceback.format_exc()[-500:]))
        return {'nontrivial': True}
    try:
        text = ''
        for name in sorted(os.listdir(out.outdir)):
            if name.endswith('.html'):
                pg = R.Page(open(os.path.join(out.outdir, name), encoding='utf-8').read())
                text += ''.join(t for t, stk in pg.texts if not any(x in ('script', 'style', 'head', 'title') for x in stk))
        a0 = 'Wq3x' if wrap == 'textarg' else 'Wq1x'
        a1 = 'Wq4x' if wrap == 'textarg' else 'Wq2x'
        i, j = text.find(a0), text.find(a1)
        if i < 0 or j < i:
            st.violation('handover/html-frame-lost', case, 'markers %s .. %s around the formula not found in the page text' % (a0, a1))
            return {'nontrivial': True}
        seg = text[i + len(a0):j]
        if wrap == 'equation':
            seg = re.sub(r'\(?\d+\)?\s*$', '', seg.rstrip())      # the equation number printed after the payload
        seg = strip_delims(seg, tag).replace('\\lt ', '<').replace('\\gt ', '>')
        st.counters['html_payloads'] += 1
        got = toks(seg)
        if got != want:
            k = first_diff(got, want)
            st.violation('handover/html-payload', case, 'formula %r (%s): text of the HTML page %r differs at token %d: expected %r, page has %r' % (w, wrap, seg[:200], k, want[k:k + 5], got[k:k + 5]))
        # image generator
        nodes = out.doc.getElementsByTagName(tag)
        if nodes:
            cap = []
            im = Imager(out.doc)
            im.writeImage = lambda fn, code, context='', scale=1.0: cap.append(code)
            im.newImage(nodes[0])
            st.counters['imager_payloads'] += 1
            if len(cap) != 1:
                st.violation('handover/imager-no-code', case, 'Imager.newImage handed over %d pieces of code for %r' % (len(cap), w))
            else:
                got = toks(strip_delims(cap[0], tag))
                if got != want:
                    k = first_diff(got, want)
                    st.violation('handover/imager-payload', case, 'formula %r (%s): code handed to the image generator %r differs at token %d: expected %r, got %r' % (w, wrap, cap[0][:200], k, want[k:k + 5], got[k:k + 5]))
    finally:
        out.cleanup()
        common.plastex_reset()
    deep = any(f in case['features'] for f in ('frac', 'script', 'array', 'left-right', 'sqrt', 'sqrt-optional', 'user-macro'))
    return {'nontrivial': deep, 'sample': {'formula': w, 'wrap': wrap, 'stage': 'handover'}}


def run_math(case, st):
    w, e, wrap = case['written'], case['expanded'], case['wrap']
    pre = mathgen.preamble()
    body, tag = formula_in_text(case)
    src = '\\documentclass{article}\\usepackage{amsmath}\n%s\\begin{document}%s\n\\end{document}' % (pre, body)
    st.counters['formulas'] += 1
    for f in case['features']:
        st.feature('math-construct', f)
    st.feature('math-wrapper', wrap)
    try:
        doc = parse(src)
    except common.CaseTimeout:
        raise
    except Exception as ex:
        st.violation('math/raises-' + type(ex).__name__, case, '%r raised %s' % (w, traceback.format_exc()[-400:]))
        return {'nontrivial': True}
    nodes = [n for n in doc.getElementsByTagName(tag)]
    # text boxes inside the formula hold no nested math here, so the outermost node is the first
    if not nodes:
        st.violation('math/node-missing', case, 'no %s node for %r' % (tag, w))
        return {'nontrivial': True}
    node = nodes[0]
    try:
        got = payload(node)
    except Exception as ex:
        st.violation('math/source-raises-' + type(ex).__name__, case, 'source of %r raised %s' % (w, traceback.format_exc()[-400:]))
        return {'nontrivial': True}
    a, b = toks(got), toks(e)
    if a != b:
        k = 0
        while k < min(len(a), len(b)) and a[k] == b[k]:
            k += 1
        st.violation(mkey(case, a, b, k), case, 'formula %r (%s): reconstructed source %r differs at token %d: expected %r, got %r' % (w, wrap, got, k, b[k:k + 5], a[k:k + 5]))
        return {'nontrivial': True}
    # MathJax payload: undoing \lt / \gt gives the same tokens
    mj = getattr(node, 'mathjax_source', None)
    if mj is not None:
        m2 = mj.replace('\\lt ', '<').replace('\\gt ', '>')
        s2 = m2.strip()
        for x, y in (('\\(', '\\)'), ('\\[', '\\]'), ('$', '$'), ('\\begin{%s}' % tag, '\\end{%s}' % tag)):
            if s2.startswith(x) and s2.endswith(y):
                s2 = s2[len(x):len(s2) - len(y)]
                break
        if toks(s2) != b:
            st.violation('math/mathjax-source', case, 'formula %r: MathJax source %r does not carry the formula' % (w, mj))
    text = re.sub(r'\s+', ' ', str(doc.textContent))
    if 'Wq2x' not in text:
        st.violation('math/text-after', case, 'marker after the formula lost: %r' % text[-60:])
    if len(doc.context.contexts) != 1:
        st.violation('math/context-depth', case, 'context depth %d after the document' % len(doc.context.contexts))
    deep = any(f in case['features'] for f in ('frac', 'script', 'array', 'left-right', 'sqrt', 'sqrt-optional', 'user-macro'))
    return {'nontrivial': deep, 'sample': {'formula': w, 'wrap': wrap}}


def mkey(case, a, b, k):
    f = case['features']
    return 'math/source-tokens-differ'
