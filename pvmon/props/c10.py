"""C10 -- lists and tables keep their shape: items, rows, cells and spans as written.

Monitor: shape ground truth from the generator (lists: one item per \\item, item
content up to the next \\item of the same list, nested lists inside the item
that contains them, description terms; tabulars: rows x cells with span, text,
borders from \\hline / \\cline / | and font declarations confined to their
cell) compared with the shapes read off the parsed tree, list by list and table
by table in document order."""
import traceback
from .. import common
from ..gen import docs
from ..obs.tree import MARK_RE

PROP = 'C10'
LEVEL = 'exploration'
RULE = ('documents with itemize/enumerate/description lists nested to depth 4 (items with several paragraphs, nested environments, optional '
        'item labels) and tabulars of 1-5 columns x 1-6 rows with column specifications over l c r p{} | @{} *{n}{}, random \\multicolumn, '
        '\\hline/\\cline placement, empty cells, cells with groups, ungrouped font declarations, math and nested tabulars.  Non-trivial = the '
        'document has a list with >= 2 items or a tabular with >= 2 rows or a span; distinct by document text.')
ASSUMPTIONS = ['shape ground truth by construction (pvmon/gen/docs.py)', '\\cline ranges are aligned with the cell boundaries of the row below them',
               'lists and tabulars are aligned with parsed nodes by document order (pre-order)']
DECIDING_REACH = ['ArrayCell.digest', 'ArrayRow.digest', 'Array.applyBorders', 'Array.compileColspec', 'List.item.digest']
DECIDING_COUNTERS = {'cells_compared': 200, 'items_compared': 200}
FONTDECLS = ('bfseries', 'itshape', 'ttfamily', 'small', 'em', 'large')


def budget(tier):
    return {'n': 1200 if tier == 'quick' else 25000, 'case_timeout': 60}


def setup(st):
    pass


def anchors():
    from plasTeX.Base.LaTeX.Arrays import Array
    from plasTeX.Base.LaTeX.Lists import List
    import plasTeX
    return {'Array.invoke': Array.invoke, 'CellDelimiter.invoke': Array.CellDelimiter.invoke, 'EndRow.invoke': Array.EndRow.invoke,
            'ArrayRow.digest': Array.ArrayRow.digest, 'ArrayCell.digest': Array.ArrayCell.digest, 'ArrayCell.borders': Array.ArrayCell.__dict__['borders'].fget,
            'BorderCommand.applyBorders': Array.BorderCommand.applyBorders, 'Array.applyBorders': Array.applyBorders, 'Array.linkCells': Array.linkCells,
            'Array.compileColspec': Array.__dict__['compileColspec'].__func__, 'multicolumn.invoke': Array.multicolumn.invoke,
            'List.item.digest': List.item.digest, 'List.invoke': List.invoke, 'List.digest': List.digest, 'Macro.digestUntil': plasTeX.Macro.digestUntil}


# ---- expected shapes from the AST -------------------------------------------

def exp_tabular(b):
    n = len(b['aligns'])
    rows = []
    src_rows = [row for row in b['rows'] if not row.get('blank')]      # rows without text or rule are dropped ("r non-empty rows yield r rows")
    last = len(src_rows) - 1
    for ri, row in enumerate(src_rows):
        cells = []
        col = 0
        for c in row['cells']:
            m = []
            docs.cell_markers(c, m)
            multi = 'multi' in c
            top = bool(row['hline'])
            if row.get('cline') and not top:
                a, bb = row['cline']
                top = a <= col + 1 and col + c['span'] <= bb
                if row.get('cline2') and not top:
                    a, bb = row['cline2']
                    top = a <= col + 1 and col + c['span'] <= bb
            cells.append({'span': c['span'], 'markers': m, 'top': top, 'bottom': ri == last and bool(b['hline_end']),
                          'left': (col == 0 and b['bars'][0] and not multi), 'right': (b['bars'][col + c['span']] and not multi),
                          'decl': c.get('decl'), 'own_decls': own_decls(c)})
            col += c['span']
        rows.append(cells)
    return {'ncol': n, 'rows': rows}


def own_decls(c):
    out = set()

    def f(n):
        if n.get('t') == 'fontdecl':
            out.add(n['cmd'])
    docs.walk(c['c'], f)
    if c.get('nested'):
        docs.walk(c['nested'], lambda n: out.add(n['decl']) if n.get('decl') else None)
        docs.walk(c['nested'], f)
    return sorted(out)


def exp_list(b):
    items = []
    for it in b['items']:
        term = []
        if 'term' in it:
            docs.inline_markers(it['term'], term)
        content, nested = [], []
        split_blocks(it['c'], content, nested)
        items.append({'term': term, 'content': content, 'nested': nested})
    return {'kind': b['kind'], 'items': items}


def split_blocks(blocks, content, nested):
    """markers of the blocks outside nested lists; nested first-level lists as shapes"""
    for b in blocks:
        t = b['t']
        if t == 'list':
            nested.append(exp_list(b))
        elif t in ('env', 'theorem', 'float'):
            if t == 'theorem' and b['title'] is not None:
                docs.inline_markers(b['title'], content)
            if t == 'float' and b['caption'] is not None and b['caption_first']:
                docs.inline_markers(b['caption'], content)
            split_blocks(b['c'], content, nested)
            if t == 'float' and b['caption'] is not None and not b['caption_first']:
                docs.inline_markers(b['caption'], content)
        else:
            docs.block_markers([b], content)


def ast_objects(d):
    lists, tabs = [], []

    def f(n):
        if n.get('t') == 'list':
            lists.append(exp_list(n))
        elif n.get('t') == 'tabular':
            tabs.append(exp_tabular(n))
    docs.walk(d, f)
    return lists, tabs


def cases(seed, tier, shard, nshards):
    for i in common.sharded(budget(tier)['n'], shard, nshards):
        r = common.rng_for(seed, PROP, i)
        heavy = r.choice(['lists', 'tables', 'both'])
        d = docs.gen(r, rich_tables=True, blank_rows=r.choice([0, 0.15]), lists=heavy != 'tables', tables=heavy != 'lists', floats=False, theorems=r.random() < 0.2, verbatim=False,
                     refs=False, labels=False, footnotes=r.random() < 0.3, depth=r.choice([2, 3, 4, 5]) if heavy == 'lists' else r.choice([1, 2]),
                     maxsec=3, blocks=(1, 4), sections=r.random() < 0.5)
        lists, tabs = ast_objects(d)
        tries = 0
        while not lists and not tabs and tries < 6:
            d = docs.gen(r, rich_tables=True, blank_rows=r.choice([0, 0.15]), lists=heavy != 'tables', tables=heavy != 'lists', floats=False, theorems=False, verbatim=False,
                         refs=False, labels=False, footnotes=False, depth=3, maxsec=2, blocks=(2, 5), sections=False)
            lists, tabs = ast_objects(d)
            tries += 1
        yield {'src': docs.latex(d, tight=r.random() < 0.2), 'lists': lists, 'tabs': tabs}


# ---- observed shapes -------------------------------------------------------------

def markers_in(node, stop=None, out=None, path=None, paths=None):
    """markers in document order below node (attributes first); `stop(n)` prunes a subtree"""
    if out is None:
        out = []
    path = path or []
    if node.nodeType == 3:
        for m in MARK_RE.findall(str(node)):
            out.append(m)
            if paths is not None:
                paths[m] = list(path)
        return out
    a = getattr(node, 'attributes', None)
    if a:
        for k, v in a.items():
            if k == 'self':
                continue
            if getattr(v, 'nodeType', None) in (1, 11, 3) and not (isinstance(v, str) and getattr(v, 'nodeType', None) != 3):
                markers_in(v, stop, out, path + [node.nodeName], paths)
    for c in (node.childNodes if node.hasChildNodes() else []):
        if stop is not None and c.nodeType == 1 and stop(c):
            continue
        markers_in(c, stop, out, path + [node.nodeName], paths)
    return out


LISTS = ('itemize', 'enumerate', 'description')


def find(node, names, out, descend_into_matches=True):
    for c in (node.childNodes if node.hasChildNodes() else []):
        if c.nodeType != 1:
            continue
        if c.nodeName in names:
            out.append(c)
            if not descend_into_matches:
                continue
        find(c, names, out, descend_into_matches)
    return out


def obs_list(node):
    items = []
    others = []
    for c in node.childNodes:
        if c.nodeType == 1 and c.nodeName == 'item':
            term = []
            t = c.attributes.get('term') if c.attributes else None
            if t is not None and getattr(t, 'nodeType', None) is not None:
                markers_in(t, out=term)
            content = []
            for k in c.childNodes:
                if k.nodeType == 1 and k.nodeName in LISTS:
                    continue
                markers_in(k, stop=lambda n: n.nodeName in LISTS, out=content)
            nested = [obs_list(x) for x in find(c, LISTS, [], descend_into_matches=False)]
            items.append({'term': term, 'content': content, 'nested': nested})
        elif c.nodeType == 3 and not str(c).strip():
            continue
        else:
            others.append(getattr(c, 'nodeName', '#text'))
    return {'kind': node.nodeName, 'items': items, 'others': others}


def obs_tabular(node):
    rows = []
    for row in node.childNodes:
        if getattr(row, 'nodeName', None) != 'ArrayRow':
            continue
        cells = []
        for cell in row.childNodes:
            if getattr(cell, 'nodeName', None) != 'ArrayCell':
                continue
            paths = {}
            m = markers_in(cell, paths=paths)
            st = cell.style
            span = cell.attributes.get('colspan') if cell.attributes else None
            cells.append({'span': span or 1, 'markers': m, 'top': 'border-top-style' in st or 'border-top' in st, 'bottom': 'border-bottom-style' in st or 'border-bottom' in st,
                          'left': 'border-left' in st, 'right': 'border-right' in st, 'paths': paths})
        rows.append(cells)
    ncol = len(node.colspec) if getattr(node, 'colspec', None) else None
    return {'ncol': ncol, 'rows': rows}


def cmp_list(e, o, where):
    if o['kind'] != e['kind']:
        return ('list-kind', '%s: list is %s, source %s' % (where, o['kind'], e['kind']))
    if o['others']:
        return ('list-stray-child', '%s: list holds non-item children %r' % (where, o['others']))
    if len(o['items']) != len(e['items']):
        return ('item-count', '%s: %d items, source has %d \\item' % (where, len(o['items']), len(e['items'])))
    for i, (ei, oi) in enumerate(zip(e['items'], o['items'])):
        w = '%s item %d' % (where, i + 1)
        if oi['term'] != ei['term']:
            return ('item-term', '%s: term %r, source %r' % (w, oi['term'], ei['term']))
        if oi['content'] != ei['content']:
            return ('item-content', '%s: holds %r, source has %r up to the next \\item' % (w, oi['content'][:12], ei['content'][:12]))
        if len(oi['nested']) != len(ei['nested']):
            return ('nested-list-placement', '%s: %d nested lists, source %d' % (w, len(oi['nested']), len(ei['nested'])))
        for j, (en, on) in enumerate(zip(ei['nested'], oi['nested'])):
            r = cmp_list(en, on, w + ' > list %d' % (j + 1))
            if r:
                return r
    return None


def cmp_tab(e, o, where, st):
    if o['ncol'] is not None and o['ncol'] != e['ncol']:
        return ('colspec-column-count', '%s: column specification compiled to %d columns, %d declared' % (where, o['ncol'], e['ncol']))
    if len(o['rows']) != len(e['rows']):
        return ('row-count', '%s: %d rows, source %d' % (where, len(o['rows']), len(e['rows'])))
    for ri, (er, orow) in enumerate(zip(e['rows'], o['rows'])):
        if len(er) != len(orow):
            return ('cell-count', '%s row %d: %d cells, source %d' % (where, ri + 1, len(orow), len(er)))
        if sum(c['span'] for c in orow) != e['ncol']:
            return ('span-sum', '%s row %d: spans sum to %d, %d columns declared' % (where, ri + 1, sum(c['span'] for c in orow), e['ncol']))
        prev_decl = None
        for ci, (ec, oc) in enumerate(zip(er, orow)):
            st.counters['cells_compared'] += 1
            w = '%s row %d cell %d' % (where, ri + 1, ci + 1)
            if oc['span'] != ec['span']:
                return ('colspan', '%s: colspan %r, written %d' % (w, oc['span'], ec['span']))
            if oc['markers'] != ec['markers']:
                return ('cell-text', '%s: holds %r, written %r' % (w, oc['markers'][:10], ec['markers'][:10]))
            for side in ('top', 'bottom', 'left', 'right'):
                if bool(oc[side]) != bool(ec[side]):
                    return ('border-' + side, '%s: border-%s is %s, rules in the source say %s' % (w, side, bool(oc[side]), bool(ec[side])))
            if prev_decl and prev_decl not in ec['own_decls'] and ec['decl'] != prev_decl:
                leaked = [m for m, p in oc['paths'].items() if prev_decl in p]
                if leaked:
                    return ('font-leak', '%s: \\%s set in the previous cell wraps %r' % (w, prev_decl, leaked[:4]))
            if ec['decl']:
                own = [m for m in ec['markers'][:1] if ec['decl'] not in oc['paths'].get(m, [])]
                if own and not ec['markers'][0] in []:
                    pass
            prev_decl = ec['decl']
            st.feature('cell', 'span%d/%s%s%s%s%s' % (min(ec['span'], 3), 'T' if ec['top'] else '', 'B' if ec['bottom'] else '', 'L' if ec['left'] else '',
                                                     'R' if ec['right'] else '', '/decl' if ec['decl'] else ''))
    return None


def run(case, st):
    from plasTeX.TeX import TeX
    common.plastex_reset()
    src = case['src']
    try:
        tex = TeX()
        tex.input(src)
        doc = tex.parse()
    except common.CaseTimeout:
        raise
    except Exception as e:
        st.violation('parse-raises-' + type(e).__name__, case, traceback.format_exc()[-500:] + src[:1200])
        return {'nontrivial': True}
    finally:
        common.plastex_reset()
    lists = find(doc, LISTS, [])
    tabs = find(doc, ('tabular',), [])
    bad = None
    if len(lists) != len(case['lists']):
        bad = ('list-count', '%d list nodes, source has %d lists' % (len(lists), len(case['lists'])))
    elif len(tabs) != len(case['tabs']):
        bad = ('tabular-count', '%d tabular nodes, source has %d' % (len(tabs), len(case['tabs'])))
    else:
        for i, (e, n) in enumerate(zip(case['lists'], lists)):
            o = obs_list(n)
            st.counters['items_compared'] += len(e['items'])
            st.feature('list', '%s/%d-items/nested-%d' % (e['kind'], min(len(e['items']), 4), min(sum(len(x['nested']) for x in e['items']), 3)))
            bad = cmp_list(e, o, 'list %d' % (i + 1))
            if bad:
                break
        if not bad:
            for i, (e, n) in enumerate(zip(case['tabs'], tabs)):
                bad = cmp_tab(e, obs_tabular(n), 'tabular %d' % (i + 1), st)
                if bad:
                    break
    if bad:
        st.violation(bad[0], case, bad[1] + '\n' + src[:2500])
    nt = any(len(l['items']) >= 2 for l in case['lists']) or any(len(t['rows']) >= 2 or any(c['span'] > 1 for r in t['rows'] for c in r) for t in case['tabs'])
    return {'nontrivial': nt, 'sample': {'src': src[:700]}}
