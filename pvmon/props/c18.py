"""C18 -- the index lists every entry exactly once, under its key, in collation order.

Monitor: an index model (path multiset grouped by key path; order by the
collation key plasTeX itself has configured; groups by unidecode(initial);
column partition) built from the generated entries is compared with the tree,
the groups and the columns of the real printindex node.  Page references are
identified by the ordinal of the \\index node they point to (unique ids), so
"one page reference per occurrence, in document order" is decided exactly."""
import sys, traceback
from .. import common

PROP = 'C18'
LEVEL = 'exploration'
RULE = ('documents with 1-40 \\index entries over mixed-case, accented, numeric and symbol-initial keys, 1-3 levels, sort@display keys, |see{..}, '
        '|textbf formats, quoted specials ("! "@ "|), duplicates and prefix families (a, a!b, a!b!c, ab), scattered over sections, with '
        '\\printindex; index-columns in 1..4.  Non-trivial = >= 3 entries with at least one duplicate path or one multi-level entry; distinct '
        'by document text.')
ASSUMPTIONS = ["the key function plasTeX has configured (plasTeX.Base.LaTeX.Index.collator) is trusted as 'the collation key'; which one is in force is "
               'recorded in the evidence', 'entries whose collation keys tie but whose raw keys differ (case variants, in 30% of the documents) may stand in any order among '
               'themselves (the statement does not order them); each of them is still one line with all its occurrences', 'how full each column is, and padding columns, are not judged']
DECIDING_REACH = ['index.invoke', 'IndexUtils.digest', 'IndexUtils.groups', 'IndexUtils.splitColumns', 'IndexEntry.__lt__']
DECIDING_COUNTERS = {'entries_compared': 300, 'rendered_entries_compared': 100}


def budget(tier):
    return {'n': 1200 if tier == 'quick' else 25000, 'n_render': 100 if tier == 'quick' else 2500, 'case_timeout': 60}


def setup(st):
    from plasTeX.Base.LaTeX import Index
    name = 'pyuca.Collator_10_0_0().sort_key' if getattr(Index.collator, '__name__', '') != '<lambda>' else 'fallback lambda x: x.lower()'
    st.feature('collation-key-in-force', name)


def anchors():
    from plasTeX.Base.LaTeX import Index as I
    return {'index.invoke': I.index.invoke, 'IndexEntry.__lt__': I.IndexEntry.__lt__, 'IndexUtils.digest': I.IndexUtils.digest,
            'IndexUtils.groups': I.IndexUtils.__dict__['groups'].fget, 'IndexUtils.splitColumns': I.IndexUtils.splitColumns}


WORDS = ['apple', 'Banana', 'cherry', 'delta', 'Epsilon', 'zeta', 'ab', 'a', 'abc', 'index', 'Zorn', 'zero', 'tree', 'Tree2', 'x1', 'éclair', 'über',
         'Ångström', 'ñu', '42', '7up', '100', '3d', '_under', '#hash', '$dollar', '~tilde', '(paren', '+plus', 'mu', 'Mu2', 'node', 'graph']
SUBS = ['alpha', 'Beta', 'gamma', 'one', 'Two', 'three', 'b', 'c', 'x', 'é2', '9', 'sub']


def tex_escape(s):
    out = ''
    for ch in s:
        if ch in '#$%&_':
            out += '\\' + ch
        elif ch == '~':
            out += '\\textasciitilde{}'
        else:
            out += ch
    return out


def gen_case(r):
    n = r.choice([1, 3, 6, 10, 20, 40])
    # most vocabularies have no collation-key ties between different raw keys
    top = r.sample(WORDS, min(len(WORDS), r.randint(2, 10)))
    seen = {}
    top = [w for w in top if seen.setdefault(w.lower(), w) == w]
    ties = r.random() < 0.3
    if ties:
        # different keys whose collation keys may tie (case variants): the statement does not order them among themselves, but
        # every one of them is still one line with all its occurrences
        top = top[:4] + [w.swapcase() for w in top[:2]] + [top[0].capitalize(), top[0].upper()]
    tie_subs = ties
    subs = r.sample(SUBS, r.randint(2, 6))
    if tie_subs:
        subs = subs[:3] + [subs[0].swapcase(), subs[0].upper()]
    entries = []
    for _ in range(n):
        levels = []
        nl = r.choice([1, 1, 1, 2, 2, 3])
        for li in range(nl):
            w = r.choice(top if li == 0 else subs)
            levels.append([w, w])
        # sort@display on the last level sometimes, and (less often) on the levels above it
        if r.random() < 0.2:
            disp = r.choice(['Shown', 'display', 'Zed'] + (['shown', 'SHOWN'] if ties else []))
            levels[-1] = [levels[-1][0], disp + levels[-1][0]]
        for li in range(nl - 1):
            if r.random() < 0.15:
                levels[li] = [levels[li][0], r.choice(['Shown', 'Zed']) + levels[li][0]]
        if ties and r.random() < 0.25:
            # formulas as display part under one sort key: their text content is empty, so the collation keys of the display parts tie
            levels[-1] = [r.choice(['0', 'arrow']), 'MATH:' + r.choice(['to', 'in', 'alpha'])]
        fmt = None
        k = r.random()
        if k < 0.1:
            fmt = ['see', r.choice(top)]
        elif k < 0.2:
            fmt = ['textbf']
        elif k < 0.25:
            fmt = ['emph']
        quoted = r.random() < 0.08 and not levels[-1][1].startswith('MATH:')
        if quoted:
            # which special character is quoted: "! (a literal !), "" (a literal "), or "" directly before a real separator
            quoted = r.choice(['!q', '!q', '"q', '"'])
        braced = False
        if r.random() < 0.1 and levels[0][0] == levels[0][1] and not (quoted and nl == 1):
            # a key that starts with a brace group ({Zz}word): the braces are markup, the sort text is Zzword
            levels[0] = ['Zz' + levels[0][0], 'Zz' + levels[0][0]]
            braced = True
        entries.append({'levels': levels, 'fmt': fmt, 'quoted': quoted, 'braced': braced})
    return entries


def print_entry(e):
    parts = []
    for i, (sort, disp) in enumerate(e['levels']):
        s, d = tex_escape(sort), tex_escape(disp)
        if disp.startswith('MATH:'):
            d = '$\\%s$' % disp[5:]
        if e.get('braced') and i == 0:
            d = s = '{Zz}' + tex_escape(disp[2:])
        if e['quoted'] and i == len(e['levels']) - 1:
            # a quoted special character inside the key: "! is a literal !, "" a literal "
            q = ''.join('"' + ch if ch in '!"' else ch for ch in e['quoted'])
            d = d + q
            if sort != disp:
                parts.append(s + q + '@' + d)
            else:
                parts.append(d)
            continue
        parts.append(d if sort == disp else s + '@' + d)
    t = '!'.join(parts)
    if e['fmt']:
        if e['fmt'][0] == 'see':
            t += '|see{%s}' % tex_escape(e['fmt'][1])
        else:
            t += '|' + e['fmt'][0]
    return t


def entry_path(e):
    """[(sort text, display text)] as the index must show them"""
    out = []
    for i, (sort, disp) in enumerate(e['levels']):
        if e['quoted'] and i == len(e['levels']) - 1:
            out.append((sort + e['quoted'], disp + e['quoted']))
        else:
            out.append((sort, disp))
    return out


def cases(seed, tier, shard, nshards):
    for i in common.sharded(budget(tier)['n'], shard, nshards):
        r = common.rng_for(seed, PROP, i)
        entries = gen_case(r)
        body = ''
        k = 0
        nsec = r.randint(1, 3)
        per = max(1, len(entries) // nsec)
        for s in range(nsec):
            body += '\\section{Wq%dx}\n' % (1000 + s)
            chunk = entries[s * per:(s + 1) * per] if s < nsec - 1 else entries[s * per:]
            for e in chunk:
                k += 1
                body += 'Wq%dx\\index{%s} ' % (k, print_entry(e))
                if r.random() < 0.1:
                    # glossary entries are written with the same syntax; they are none of the index's business
                    body += '\\glossary{%s} ' % print_entry(r.choice(entries))
                if r.random() < 0.2:
                    body += '\n\n'
            body += '\n'
        cols = r.choice([1, 2, 2, 3, 4])
        src = '\\documentclass{article}\\usepackage{makeidx}\\makeindex\n\\begin{document}\n%s\\printindex\n\\end{document}\n' % body
        yield {'src': src, 'entries': [{'path': entry_path(e), 'fmt': e['fmt']} for e in entries], 'cols': cols,
               'render': (r.choice(['HTML5', 'HTML5', 'XHTML']) if i < budget(tier)['n_render'] * 1 else None)}


# ---------------------------------------------------------------------------

def model(entries, collate, unidecode):
    """-> tree: list of nodes {sort, disp, occ:[ordinals], kids:[...]} in index order"""
    root = {'kids': {}, 'order': []}
    for n, e in enumerate(entries):
        cur = root
        for (s, d) in e['path']:
            key = (s, d)
            if key not in cur['kids']:
                cur['kids'][key] = {'sort': s, 'disp': d, 'occ': [], 'kids': {}, 'first': n}
            cur = cur['kids'][key]
        cur['occ'].append(n)

    def order(node):
        kids = list(node['kids'].values())
        kids.sort(key=lambda k: (collate(k['sort']), collate(shown_text(k['disp']))))
        return [{'sort': k['sort'], 'disp': k['disp'], 'occ': k['occ'], 'kids': order(k)} for k in kids]
    return order(root)


def shown_text(disp):
    """the text content of a display part (a formula has none)"""
    return '' if disp.startswith('MATH:') else disp


def disp_of(key):
    maths = key.getElementsByTagName('math') if hasattr(key, 'getElementsByTagName') else []
    if maths:
        inner = [c.nodeName for c in maths[0].childNodes if c.nodeType == 1]
        return 'MATH:' + (inner[0] if inner else '?')
    return str(key.textContent)


def observed(node, ordinal):
    out = []
    for c in node.childNodes:
        if c.nodeType != 1 or not hasattr(c, 'pages'):
            continue
        out.append({'sort': str(c.sortkey), 'disp': disp_of(c.key), 'occ': [ordinal.get(id(p._cr_node), -1) for p in c.pages], 'kids': observed(c, ordinal), 'node': c})
    return out


def strip(t):
    return [{'sort': x['sort'], 'disp': x['disp'], 'occ': x['occ'], 'kids': strip(x['kids'])} for x in t]


def canon_ties(t, collate):
    """siblings whose collation keys tie are not ordered by the statement: put every maximal run of them into one fixed order"""
    out, i = [], 0
    while i < len(t):
        k = (collate(t[i]['sort']), collate(shown_text(t[i]['disp'])))
        j = i
        while j < len(t) and (collate(t[j]['sort']), collate(shown_text(t[j]['disp']))) == k:
            j += 1
        out.extend(sorted(t[i:j], key=lambda x: (x['sort'], x['disp'])))
        i = j
    for x in out:
        x['kids'] = canon_ties(x['kids'], collate)
    return out


def diff_tree(e, o, path=''):
    if len(e) != len(o):
        return 'under %r: index shows %r, entries name %r' % (path or '(top)', [x['disp'] for x in o], [x['disp'] for x in e])
    for a, b in zip(e, o):
        if (a['sort'], a['disp']) != (b['sort'], b['disp']):
            return 'under %r: order/keys differ: index %r, expected %r' % (path or '(top)', [(x['sort'], x['disp']) for x in o], [(x['sort'], x['disp']) for x in e])
        if a['occ'] != b['occ']:
            return 'entry %r: page references point to occurrences %r, expected %r (document order)' % (path + '!' + a['disp'], b['occ'], a['occ'])
        d = diff_tree(a['kids'], b['kids'], path + '!' + a['disp'])
        if d:
            return d
    return None


def run(case, st):
    from plasTeX.TeX import TeX
    from plasTeX.Base.LaTeX import Index as IndexMod
    common.plastex_reset()
    src = case['src']
    try:
        tex = TeX()
        tex.ownerDocument.config['document']['index-columns'] = case['cols']
        tex.input(src)
        doc = tex.parse()
    except common.CaseTimeout:
        raise
    except Exception as e:
        st.violation('parse-raises-' + type(e).__name__, case, traceback.format_exc()[-600:] + src[:800])
        return {'nontrivial': True}
    finally:
        common.plastex_reset()
    pis = doc.getElementsByTagName('printindex')
    if len(pis) != 1:
        st.violation('printindex-missing', case, '%d printindex nodes' % len(pis))
        return {'nontrivial': True}
    pi = pis[0]
    idx_nodes = [n for n in doc.getElementsByTagName('index')]
    ordinal = {id(n): i for i, n in enumerate(idx_nodes)}
    if len(idx_nodes) != len(case['entries']):
        st.violation('index-node-count', case, '%d \\index nodes for %d entries' % (len(idx_nodes), len(case['entries'])))
        return {'nontrivial': True}
    exp = model(case['entries'], IndexMod.collator, IndexMod.unidecode)
    obs = observed(pi, ordinal)
    st.counters['entries_compared'] += len(case['entries'])
    exp = canon_ties(exp, IndexMod.collator)
    d = diff_tree(exp, canon_ties(strip(obs), IndexMod.collator))
    if d:
        st.violation(classify(case, d), case, d + '\n' + src[:1500])
        return {'nontrivial': True}
    # groups and columns
    try:
        groups = pi.groups
    except Exception as e:
        st.violation('groups-raises-' + type(e).__name__, case, traceback.format_exc()[-500:])
        return {'nontrivial': True}
    flat = []
    prev_title = None
    for g in groups:
        members = [x for col in g for x in col]
        if len(g) < case['cols'] and False:
            pass
        for m in members:
            s = str(m.sortkey)
            ch = IndexMod.unidecode(s[0]).upper() if s else ''
            want = ch if (ch and ch in 'ABCDEFGHIJKLMNOPQRSTUVWXYZ') else ('_ (Underscore)' if ch == '_' else 'Symbols')
            if g.title != want:
                st.violation('group-title', case, 'entry with sort key %r is under heading %r, its initial gives %r' % (s, g.title, want))
                return {'nontrivial': True}
        if prev_title == g.title:
            st.violation('group-split', case, 'two adjacent groups share the heading %r' % g.title)
            return {'nontrivial': True}
        prev_title = g.title
        st.feature('group-title', g.title if len(g.title) == 1 else g.title[:7])
        st.feature('columns', '%d cols / %d members' % (case['cols'], min(len(members), 6)))
        flat.extend(members)
    top = [x['node'] for x in obs]
    if len(flat) != len(top) or any(a is not b for a, b in zip(flat, top)):
        st.violation('column-partition', case, 'concatenating the columns of all groups gives %r, the index order is %r (index-columns=%d)' % (
            [str(x.key.textContent) for x in flat], [str(x.key.textContent) for x in top], case['cols']))
        return {'nontrivial': True}
    if case.get('render'):
        d = rendered_index(case, strip(obs), st)        # (the order the tree has, which was just found to be a correct one)
        if d:
            st.violation('rendered/' + d[0], case, '%s index page: %s\n%s' % (case['render'], d[1], src[:1200]))
            return {'nontrivial': True}
    paths = [tuple(map(tuple, e['path'])) for e in case['entries']]
    nt = len(paths) >= 3 and (len(set(paths)) < len(paths) or any(len(p) > 1 for p in paths))
    return {'nontrivial': nt, 'sample': {'entries': [print_entry_path(e) for e in case['entries'][:6]], 'cols': case['cols']}}


from html.parser import HTMLParser


class IndexPage(HTMLParser):
    """the list structure of a rendered index: items = [{'key': text before the first comma, 'links': number of page links, 'kids': [...]}]"""

    def __init__(self, text):
        HTMLParser.__init__(self, convert_charrefs=True)
        self.inidx = 0
        self.stack = []          # open <li> items
        self.top = []
        self.in_a = 0
        self.divs = []
        self.feed(text)
        self.close()

    def handle_starttag(self, tag, attrs):
        d = dict(attrs)
        cls = d.get('class') or ''
        if tag in ('section', 'div'):
            self.divs.append('theindex' in cls.split())
            if self.divs[-1]:
                self.inidx += 1
        if not self.inidx:
            return
        if tag == 'li':
            it = {'text': '', 'links': 0, 'kids': []}
            (self.stack[-1]['kids'] if self.stack else self.top).append(it)
            self.stack.append(it)
        elif tag == 'a' and self.stack:          # one <a> per page reference (a |see reference has no target)
            self.stack[-1]['links'] += 1
            self.in_a += 1

    def handle_endtag(self, tag):
        if tag in ('section', 'div') and self.divs:
            if self.divs.pop():
                self.inidx -= 1
        if tag == 'li' and self.stack:
            self.stack.pop()
        elif tag == 'a' and self.in_a:
            self.in_a -= 1

    def handle_data(self, data):
        if self.inidx and self.stack and not self.in_a:
            self.stack[-1]['text'] += data


def rendered_index(case, exp, st):
    """render the document and read the index as a reader of the page would: every entry once, under its path, with one link per occurrence"""
    import os, re
    from ..obs import render as R
    try:
        out = R.render(case['src'], case['render'], {('document', 'index-columns'): case['cols'], ('files', 'split-level'): -10})
    except common.CaseTimeout:
        raise
    except Exception as e:
        return ('render-raises-' + type(e).__name__, traceback.format_exc()[-500:])
    finally:
        common.plastex_reset()
    try:
        items = []
        for f in sorted(os.listdir(out.outdir)):
            if f.endswith('.html'):
                items.extend(IndexPage(open(os.path.join(out.outdir, f), encoding='utf-8').read()).top)
    finally:
        out.cleanup()

    def norm(x):
        return re.sub(r'\s+', '', x)

    def key_of(it):
        t = it['text']
        return norm(t.split(',')[0]) if ',' in t else norm(t)

    def cmp(e, o, path):
        if len(e) != len(o):
            return ('tree-shape', 'under %r: the page lists %r, the entries name %r' % (path or '(top)', [key_of(x) for x in o], [x['disp'] for x in e]))
        for a, b in zip(e, o):
            st.counters['rendered_entries_compared'] += 1
            if not a['disp'].startswith('MATH:') and not key_of(b).startswith(norm(a['disp'])[:40]) and norm(a['disp']) not in norm(b['text']):
                return ('order-or-keys', 'under %r: the page lists %r, expected %r' % (path or '(top)', [key_of(x) for x in o], [x['disp'] for x in e]))
            if b['links'] != len(a['occ']):
                return ('page-references', 'entry %r: %d page links on the page, %d occurrences in the document' % (path + '!' + a['disp'], b['links'], len(a['occ'])))
            d = cmp(a['kids'], b['kids'], path + '!' + a['disp'])
            if d:
                return d
        return None
    return cmp(exp, items, '')


def print_entry_path(e):
    return '!'.join(s if s == d else s + '@' + d for s, d in e['path'])


def classify(case, d):
    if 'page references' in d:
        return 'page-references'
    if 'order/keys differ' in d:
        return 'order-or-keys'
    return 'tree-shape'
