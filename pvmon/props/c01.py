"""C01 -- tokenization follows TeX's lexical rules for every input and catcode table.

Monitor: reference model (pvmon.reftex.lexer, written from the TeXbook) run
beside the real tokenizer on generated hostile strings x category tables
installed through the real Context.catcode / setVerbatimCatcodes.  The token
stream of TeX().input(s).itertokens() is compared as (kind, text) pairs; the
public Tokenizer.state is sampled after every token (state transitions seen go
into the evidence); termination is decided by a bound on backward jumps inside
Tokenizer.iterchars/__iter__ (logical steps, not wall-clock).

Second stage ("midstream"): the driver pulls tokens one at a time and changes
category codes between two pulls (what \\catcode, \\makeatletter, \\verb and
verbatim do while a line is being read); the reference is the incremental
lexer, which looks every character up at the moment it is read, so look-ahead
that was pushed back must be re-read under the categories then in force.
"""
import string, re
from .. import common
from ..reach import JumpCounter, StepBound
from ..reftex import lexer as L

PROP = 'C01'
LEVEL = 'exploration'
RULE = ('a case = one category table (default, @-letter, verbatim, verbatim+escape/braces, or the default modified by 1-6 random '
        'Context.catcode assignments; any category 0-15, the end-of-line category included) x 5 strings of 0-40 (thorough 0-120) characters built '
        'from weighted fragments over the adversarial alphabet (escape, braces, $ & # ^ _ ~ %, blanks, tab, LF, CR, FF, NUL, DEL, letters, digits, '
        '@, non-ASCII, astral, ^^-sequences, comments, blank-line runs, trailing ^ / ^^ / backslash).  Non-trivial = the strings of the case '
        'produced at least 3 tokens in total and contain a control sequence, a blank run or a ^^ sequence; distinct by content hash.')
ASSUMPTIONS = ['reference lexer pvmon/reftex/lexer.py (TeXbook ch. 7-8; the physical newline plays the role of the end-of-line character)',
               'normal form NF-9 of DESIGN.md: inputs the reference flags as outside it are skipped and counted, never judged',
               'adjacent \\par tokens are compared collapsed']
DECIDING_REACH = ['Tokenizer.__iter__', 'Tokenizer.iterchars', 'Context.whichCode']
DECIDING_COUNTERS = {'tokens_compared': 1000, 'midstream_tokens_compared': 500, 'midstream_changes_applied': 100}


def budget(tier):
    return {'n': 20000 if tier == 'quick' else 300000, 'n_mid': 6000 if tier == 'quick' else 120000, 'case_timeout': 20}


_jc = None


def setup(st):
    global _jc
    from plasTeX.Tokenizer import Tokenizer
    _jc = JumpCounter([Tokenizer.iterchars, Tokenizer.__iter__, Tokenizer.readline])
    _jc.start()


def teardown(st):
    if _jc is not None:
        _jc.reset(1 << 60)
        st.counters['max_backward_jumps_per_string'] = _jc.maxseen
        _jc.stop()


def anchors():
    from plasTeX.Tokenizer import Tokenizer
    from plasTeX.Context import Context
    return {'Tokenizer.__iter__': Tokenizer.__iter__, 'Tokenizer.iterchars': Tokenizer.iterchars, 'Tokenizer.pushChar': Tokenizer.pushChar,
            'Context.whichCode': Context.whichCode, 'Context.catcode': Context.catcode, 'Context.setVerbatimCatcodes': Context.setVerbatimCatcodes}


# ---------------------------------------------------------------------------
SPECIALS = '\\{}$&#^_~%'
BLANKS = ' \t\r\f'
LETTERS = 'abzAZq'
DIGITS = '019'
NONASCII = 'éßλж —'
SYMS = '.,;!?*+-=/|<>()[]"\'`@'
ODD = '\x00\x7f\x01\x1b'
ASTRAL = '\U0001d49c'
PRIM_SAFE = set('{}$&#^_~%' + 'éßλж—' + '.,;!?*+-/|<>()[]"\'@')      # characters \catcode`\X=N can name while \ ` = and the digits keep their meaning
ALPHABET = SPECIALS + BLANKS + '\n' + LETTERS + DIGITS + NONASCII + SYMS + ODD + ASTRAL


def word(r):
    return ''.join(r.choice(LETTERS + '@') if r.random() < 0.15 else r.choice(LETTERS) for _ in range(r.randint(1, 4)))


def blanks(r):
    return ''.join(r.choice(' \t ') for _ in range(r.randint(0, 3)))


def fragment(r):
    k = r.random()
    if k < 0.16:
        return '\\' + word(r) + blanks(r)
    if k < 0.24:
        return '\\' + r.choice(SPECIALS + SYMS + DIGITS + ' ' + NONASCII)
    if k < 0.33:
        return r.choice(['^^M', '^^@', '^^?', '^^A', '^^I', '^^[', '^^`', '^^e', '^^Z', '^^5', '^^{', '^^\\', '^^ ']) + r.choice(['', 'a', ' '])
    if k < 0.40:
        return '%' + ''.join(r.choice(ALPHABET.replace('\n', '')) for _ in range(r.randint(0, 5))) + '\n'
    if k < 0.50:
        return r.choice(['\n\n', '\n \n', '\n\n\n', ' \n', '\n  ', '\n\t\n', '\r\n', '\n%\n\n'])
    if k < 0.58:
        return blanks(r) + ' '
    if k < 0.62:
        return r.choice(['^', '^^', '\\', '^^^', '_^', '\\^^M', '\\^^A'])
    if k < 0.80:
        return ''.join(r.choice(LETTERS + DIGITS) for _ in range(r.randint(1, 4)))
    return r.choice(ALPHABET)


def gen_string(r, maxlen):
    target = r.choice([0, 1, 2, 5, 10, 20, maxlen, maxlen])
    s = ''
    while len(s) < target:
        s += fragment(r)
    return s[:maxlen + 8]


# tables reached through LaTeX's own commands: (source executed first, assignments that describe the table it must give)
AT_PRELUDES = [('\\makeatletter ', [['@', 11]]), ('\\makeatletter\\makeatother ', []), ('\\makeatletter\\makeatletter\\makeatother ', []),
               ('\\catcode`\\@=11 \\makeatletter\\makeatother ', []), ('\\makeatletter{\\makeatletter\\makeatother}', [['@', 11]]),
               ('\\catcode`\\@=13 \\makeatletter\\makeatother ', []), ('\\makeatother\\makeatletter ', [['@', 11]])]


def gen_table(r):
    k = r.random()
    if k < 0.05:
        src, assign = r.choice(AT_PRELUDES)
        return {'base': 'default', 'assign': [list(a) for a in assign], 'prelude': src}
    if k < 0.25:
        return {'base': 'default', 'assign': []}
    if k < 0.35:
        return {'base': 'default', 'assign': [['@', 11]]}
    if k < 0.45:
        return {'base': 'verbatim', 'assign': []}
    if k < 0.52:
        return {'base': 'verbatim', 'assign': [['\\', 0], ['{', 1], ['}', 2]]}
    assign = []
    for _ in range(r.randint(1, 6)):
        ch = r.choice(ALPHABET)
        code = r.choice([0, 1, 2, 3, 4, 5, 6, 7, 8, 9, 10, 11, 12, 13, 14, 15, 11, 12, 10])
        if ch == '\n' and r.random() < 0.7:
            continue
        assign.append([ch, code])
    if r.random() < 0.15:
        assign.append(['\n', 5])
    return {'base': r.choice(['default', 'default', 'default', 'verbatim']), 'assign': assign}


def cases(seed, tier, shard, nshards):
    n = budget(tier)['n']
    maxlen = 40 if tier == 'quick' else 120
    for i in common.sharded(n, shard, nshards):
        r = common.rng_for(seed, PROP, i)
        spec = gen_table(r)
        t = ref_table(spec)
        strings = [gen_string(r, maxlen) for _ in range(5)]
        if t.cat(' ') != 10 or t.cat('\t') != 10:
            # TeX strips the trailing blanks of a line physically (NF-9)
            strings = [re.sub(r'[ \t]+(\n|$)', r'\1', s) for s in strings]
        yield {'table': spec, 'strings': strings}
    for i in common.sharded(budget(tier)['n_mid'], shard, nshards):
        r = common.rng_for(seed, PROP, i, 'mid')
        yield gen_midstream(r, maxlen)


MID_CODES = [0, 1, 2, 3, 4, 6, 8, 9, 10, 11, 12, 13, 14, 15, 11, 12, 12, 11, 10, 14]


def gen_midstream(r, maxlen):
    """string without ^ (no ^^ notation), without blanks at line ends, without CR; 1-4 category changes, each applied after the k-th token has been
    delivered; never category 5/7 and never on the newline (NF-9)"""
    # bases keep the newline at category 5 (the known finding about re-categorised newlines belongs to the first stage)
    allother = [[c, 12] for c in SPECIALS if c != '^']
    base = r.choice([{'base': 'default', 'assign': []}, {'base': 'default', 'assign': []}, {'base': 'default', 'assign': [['@', 11]]}, {'base': 'default', 'assign': allother},
                     {'base': 'default', 'assign': [a for a in allother if a[0] not in '\\{}']}])
    s = ''
    target = r.choice([3, 6, 12, 25, maxlen])
    while len(s) < target:
        f = fragment(r)
        if '^' in f or '\r' in f:
            continue
        s += f
    s = s[:maxlen + 8]
    while True:
        s0 = s
        s = re.sub(r'[ \t\f]+(\n|$)', r'\1', s)
        s = re.sub(r'\\(\n|$)', r'\1', s)          # no escape character directly before the end of a line
        s = re.sub(r'\n[ \t\f]*\n+', '\n', s).lstrip('\n')  # no empty lines: the two sides may deliver runs of \par differently and the schedule counts tokens
        if s == s0:                                 # (removing one thing can expose another: repeat until nothing changes)
            break
    chars = sorted(set(s) - {'\n', '^'}) or ['a']
    sched = []
    for _ in range(r.randint(1, 4)):
        ch = r.choice(chars) if r.random() < 0.8 else r.choice(SPECIALS.replace('^', '') + '@ ' + LETTERS)
        sched.append([r.randint(0, max(1, len(s) // 2)), ch, r.choice(MID_CODES)])
    sched.sort(key=lambda x: x[0])
    return {'kind': 'midstream', 'table': base, 'string': s, 'schedule': sched}


# ---------------------------------------------------------------------------

def ref_table(spec):
    if spec['base'] == 'default':
        t = L.Table(L.default_table())
    else:
        t = L.verbatim_table()
    for ch, code in spec['assign']:
        if code == 12:
            t.pop(ch, None)
        else:
            t[ch] = code
    return t


def conv(tok):
    from plasTeX.Tokenizer import EscapeSequence
    if isinstance(tok, EscapeSequence):
        s = str(tok)
        if s.startswith('active::'):
            return ('active', s[8:])
        return ('cs', s)
    return (tok.catcode, str(tok))


def run_midstream(case, st):
    from plasTeX.TeX import TeX
    tex = TeX()
    ctx = tex.ownerDocument.context
    spec, s = case['table'], case['string']
    if spec['base'] == 'verbatim':
        ctx.setVerbatimCatcodes()
    for ch, code in spec['assign']:
        ctx.catcode(ch, code)
    table = ref_table(spec)
    ref = L.IncLexer(s, table.cat)
    sched = list(case['schedule'])
    _jc.reset(64 * (len(s) + 2) + 64)
    exp, got = [], []
    applied = 0
    try:
        tex.input(s)
        it = tex.itertokens()
        k = 0
        done_r = done_g = False
        while not (done_r and done_g):
            while sched and sched[0][0] <= k:
                _, ch, code = sched.pop(0)
                ctx.catcode(ch, code)
                if code == 12:
                    table.pop(ch, None)
                else:
                    table[ch] = code
                if not (done_r and done_g):
                    applied += 1
                st.feature('midstream-change', 'to-%d' % code)
            if not done_r:
                t = ref.next()
                # plasTeX never delivers two paragraph tokens in a row (a normal form the comparison below applies anyway); the
                # reference must not fall a token behind because of it, or later changes would reach the two lexers at different places
                while t == ('cs', 'par') and exp and exp[-1] == ('cs', 'par'):
                    t = ref.next()
                if t is None:
                    done_r = True
                else:
                    exp.append(t)
            if not done_g:
                try:
                    got.append(conv(next(it)))
                except StopIteration:
                    done_g = True
            k += 1
    except StepBound as e:
        _jc.reset(1 << 60)
        st.violation('midstream/no-termination', case, 'tokenizing %r with changes %r: %s' % (s, case['schedule'], e))
        return {'nontrivial': True}
    except common.CaseTimeout:
        raise
    except Exception as e:
        _jc.reset(1 << 60)
        import traceback
        st.violation('midstream/raises-' + type(e).__name__, case, 'tokenizing %r with changes %r raised %s' % (s, case['schedule'], traceback.format_exc()[-500:]))
        return {'nontrivial': True}
    _jc.reset(1 << 60)
    if ('cs', '\n') in exp or ('cs', '') in exp:
        # a change of category made an escape character stand directly before the end of a line (NF-9, as in the first stage)
        st.outcomes['precondition_skip'] += 1
        st.counters['nf9_skip:escape-before-eol'] += 1
        return {}
    e2, g2 = L.collapse_pars(exp), L.collapse_pars(got)
    st.counters['midstream_tokens_compared'] += len(g2)
    st.counters['midstream_changes_applied'] += applied
    if e2 != g2:
        k = 0
        while k < min(len(e2), len(g2)) and e2[k] == g2[k]:
            k += 1
        st.violation(classify_mid(case, e2, g2, k), case, 'string %r base %r changes (after token k: char, code) %r: first difference at token %d: expected %r..., got %r...'
                     % (s, spec, case['schedule'], k, e2[k:k + 4], g2[k:k + 4]))
    return {'nontrivial': len(g2) >= 3 and applied >= 1, 'sample': {'string': s, 'schedule': case['schedule']}}


def classify_mid(case, exp, got, k):
    prev = exp[k - 1] if 0 < k <= len(exp) else None
    if prev and prev[0] == 'cs' and len(prev[1]) >= 1 and prev[1].isalpha():
        return 'midstream/after-control-word'
    return 'midstream/stream-differs'


def run(case, st):
    from plasTeX.TeX import TeX
    from plasTeX.Tokenizer import Token, Space, Tokenizer
    if case.get('kind') == 'midstream':
        return run_midstream(case, st)
    tex = TeX()
    ctx = tex.ownerDocument.context
    spec = case['table']
    if spec['base'] == 'verbatim':
        ctx.setVerbatimCatcodes()
    via_source = (spec['base'] == 'default' and spec['assign'] and all(ch in PRIM_SAFE and code != 5 for ch, code in spec['assign'])
                  and common.case_hash(case)[1] % 2 == 0)
    if spec.get('prelude'):
        # the table is whatever the prelude leaves behind (\makeatletter / \makeatother in their combinations)
        try:
            tex.input(spec['prelude'])
            for _ in tex:
                pass
        except common.CaseTimeout:
            raise
        except Exception as e:
            import traceback
            st.violation('prelude-raises-' + type(e).__name__, case, 'prelude %r: %s' % (spec['prelude'], traceback.format_exc()[-400:]))
            return {'nontrivial': True}
        tex.inputs[:] = []
        st.counters['tables_installed_by_prelude'] += 1
        st.feature('table-installed-by', 'makeat-prelude')
    elif via_source:
        # the way a document does it: \catcode`\X=N in the source, executed by the \catcode primitive
        try:
            for ch, code in spec['assign']:
                tex.input('\\catcode`\\%s=%d\\relax' % (ch, code))
                for _ in tex:
                    pass
        except common.CaseTimeout:
            raise
        except Exception as e:
            import traceback
            st.violation('catcode-primitive-raises-' + type(e).__name__, case, 'table %r: %s' % (spec, traceback.format_exc()[-400:]))
            return {'nontrivial': True}
        tex.inputs[:] = []
        st.counters['tables_installed_by_primitive'] += 1
        st.feature('table-installed-by', 'catcode-primitive')
    else:
        for ch, code in spec['assign']:
            ctx.catcode(ch, code)
        st.feature('table-installed-by', 'Context.catcode')
    if common.case_hash(case)[0] % 4 == 0:
        # the same table, reached the way a document reaches it after an inner group has come and gone
        # (a group with a category change of its own was opened and closed after the assignments)
        ctx.push()
        ctx.catcode('!', 11)
        ctx.catcode('\\', 12)
        ctx.pop()
        st.feature('table-reached-through', 'group-closed-after-assignments')
    elif common.case_hash(case)[0] % 4 == 1:
        # ... after an outer group that made its first change only when an inner group with a change of its own had closed
        hostile = [('!', 11), ('\\', 12), ('@', 11), ('~', 12), ('%', 12), ('a', 13)]
        k = common.case_hash(case)[2] % len(hostile)
        if ((via_source or not spec['assign']) and spec['base'] == 'default' and not spec.get('prelude') and common.case_hash(case)[3] % 2 == 0
                and not any(ch in '{}' for ch, code in spec['assign'])):
            a, b = hostile[k], hostile[(k + 2) % len(hostile)]
            a, b = (a if a[0] in PRIM_SAFE else ('!', 11)), (b if b[0] in PRIM_SAFE else ('@', 11))
            try:
                tex.input('{{\\catcode`\\%s=%d\\relax x}\\catcode`\\%s=%d\\relax y}' % (a[0], a[1], b[0], b[1]))
                for _ in tex:
                    pass
            except common.CaseTimeout:
                raise
            except Exception as e:
                import traceback
                st.violation('catcode-primitive-raises-' + type(e).__name__, case, 'nested groups with changes: %s' % traceback.format_exc()[-400:])
                return {'nontrivial': True}
            tex.inputs[:] = []
            st.feature('table-reached-through', 'nested-groups-in-source')
        else:
            ctx.push()
            ctx.push()
            ctx.catcode(*hostile[k])
            ctx.pop()
            ctx.catcode(*hostile[(k + 1) % len(hostile)])
            ctx.catcode(*hostile[(k + 3) % len(hostile)])
            ctx.pop()
            st.feature('table-reached-through', 'nested-groups-closed')
    else:
        st.feature('table-reached-through', 'assignments')
    table = ref_table(spec)
    # partition invariant of the real table: every alphabet character is looked up to the assigned class
    for ch in ALPHABET:
        got = ctx.whichCode(ch)
        if got != table.cat(ch):
            st.violation('whichCode-disagrees', case, 'whichCode(%r)=%d, assigned table says %d (table %r)' % (ch, got, table.cat(ch), spec))
            return {'nontrivial': True}
    total = 0
    interesting = False
    for s in case['strings']:
        flags = set()
        pairs = set()
        exp = L.collapse_pars(L.tokenize(s, table, stats=pairs, flags=flags))
        if flags:
            st.outcomes['precondition_skip'] += 1
            for f in flags:
                st.counters['nf9_skip:' + f] += 1
            continue
        st.counters['strings_judged'] += 1
        _jc.reset(64 * (len(s) + 2) + 64)
        got = []
        try:
            tex.inputs[:] = []
            tex.input(s)
            tk = tex.currentInput[0]
            prev_state = tk.state
            for tok in tex.itertokens():
                got.append(conv(tok))
                cls_cat = type(tok).catcode
                if tok.catcode != cls_cat:
                    st.violation('token-category-differs-from-class', case, 'token %r of class %s carries catcode %r in %r' % (tok, type(tok).__name__, tok.catcode, s))
                    return {'nontrivial': True}
                if isinstance(tok, Space) and str(tok) != ' ':
                    st.violation('space-token-text', case, 'Space token with text %r in %r' % (str(tok), s))
                    return {'nontrivial': True}
                st.feature('transition', '%s -%s-> %s' % (_sn(prev_state), got[-1][0], _sn(tk.state)))
                prev_state = tk.state
        except StepBound as e:
            _jc.reset(1 << 60)
            st.violation('no-termination', case, 'tokenizing %r under %r: %s' % (s, spec, e))
            return {'nontrivial': True}
        except common.CaseTimeout:
            raise
        except Exception as e:
            _jc.reset(1 << 60)
            import traceback
            st.violation(classify_exc(s, table, e), case, 'tokenizing %r under %r raised %s' % (s, spec, traceback.format_exc()[-500:]))
            continue
        _jc.reset(1 << 60)
        gotc = L.collapse_pars(got)
        for p in pairs:
            st.feature('ref-state-category', '%s/%d' % p)
        total += len(gotc)
        st.counters['tokens_compared'] += len(gotc)
        if gotc != exp:
            key = classify_diff(s, table, exp, gotc)
            if key is None:
                st.outcomes['precondition_skip'] += 1
                st.counters['nf9_skip:escape-before-eol-in-line-less-reading'] += 1
                continue
            k = 0
            while k < min(len(exp), len(gotc)) and exp[k] == gotc[k]:
                k += 1
            st.violation(key, case, 'string %r table %r: first difference at token %d: expected %r..., got %r...' % (s, spec, k, exp[k:k + 4], gotc[k:k + 4]))
        if '\\' in s or '  ' in s or '^^' in s or '\n' in s:
            interesting = True
    return {'nontrivial': total >= 3 and interesting, 'sample': {'table': spec, 'strings': case['strings'][:2]}}


def _sn(x):
    return {1: 'S', 2: 'M', 4: 'N'}.get(x, str(x))


def classify_exc(s, table, e):
    cat = table.cat
    if isinstance(e, TypeError) and len(s) >= 2 and s[-1] == s[-2] and cat(s[-1]) == 7:
        return 'hathat-at-end-of-input-typeerror'
    return 'raises-' + type(e).__name__


def classify_diff(s, table, exp, got):
    """mechanism keys from features of the input and the symptom"""
    cat = table.cat
    k = 0
    while k < min(len(exp), len(got)) and exp[k] == got[k]:
        k += 1
    e = exp[k] if k < len(exp) else None
    g = got[k] if k < len(got) else None
    prev = got[k - 1] if k else None
    # line structure is only tracked through the end-of-line category: with a re-categorised
    # newline the observed stream must be exactly what a line-less reading of the same rules gives
    if cat('\n') != 5 and '\n' in s:
        aflags = set()
        alt = L.collapse_pars(L.tokenize(s, table, stream=True, flags=aflags))
        if alt == got:
            return 'line-structure-lost-when-newline-recategorised'
        if 'escape-before-eol' in aflags:
            # in the line-less reading an escape character stands directly before an end-of-line character (NF-9)
            return None
    # blanks kept after a control word whose last letter is not an ASCII letter
    if g == (10, ' ') and prev and prev[0] == 'cs' and prev[1] and prev[1] != 'par' and prev[1][-1] not in string.ascii_letters and cat(prev[1][-1]) == 11:
        return 'blank-kept-after-control-word-ending-in-non-ascii-letter'
    # blanks skipped after a control *symbol* whose character is an ASCII letter by value but not by category
    if e == (10, ' ') and prev and prev[0] == 'cs' and len(prev[1]) == 1 and prev[1] in string.ascii_letters and cat(prev[1]) != 11:
        return 'blank-skipped-after-control-symbol-with-ascii-letter'
    # ignored character inside a control word does not end it
    if e and g and e[0] == 'cs' and g[0] == 'cs' and g[1].startswith(e[1]) and len(g[1]) > len(e[1]) and any(cat(c) in (9, 15) for c in s):
        return 'ignored-char-does-not-end-control-word'
    # line structure is only tracked through the end-of-line category: with a re-categorised
    # newline the observed stream must be exactly what a line-less reading of the same rules gives
    if cat('\n') != 5 and '\n' in s:
        alt = L.collapse_pars(L.tokenize(s, table, stream=True))
        if alt == got:
            return 'line-structure-lost-when-newline-recategorised'
    return 'token-stream-differs'
