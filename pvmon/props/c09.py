"""C09 -- every reference resolves to the object its label names, wherever the label is.

Monitor: ground truth label -> AST object (generator) aligned with the parsed
numbered nodes by kind and document order; for every \\ref/\\pageref node the
resolved object (idref['label']) must be *that* node (identity), carry the label
as id and the number the LaTeX counter machine gives; dangling references resolve
to no node of the tree; the outcome must be the same for the variants of the
document with all references moved before / after their labels.  A wrapper on
Context.label/ref keeps a shadow table of pending references and asserts after
every label() that back-patching of that label is complete."""
import copy, re, traceback
from .. import common
from ..instrument import wrap
from ..gen import docs
from ..model import counters as CM
from .c08 import collect as _collect_unused, SEC

PROP = 'C09'
LEVEL = 'exploration'
RULE = ('documents with labels on sections (directly after the command), equations, eqnarray rows, enumerate items, figure/table captions and '
        'theorems, 0-4 references (\\ref, \\pageref) per label placed before, after and inside the labelled object, 0-3 dangling references; each '
        'document in 3 variants (as generated; all references moved to the start; all moved to the end).  Non-trivial = >= 2 labels and >= 2 '
        'resolved references; distinct by document text.')
ASSUMPTIONS = ['labelled objects are aligned with parsed nodes by kind and document order (C07/C08 decide order and numbers)',
               'NF-10: one label per object, label names over [a-z0-9:-]',
               'a label in the first row of an eqnarray may attach to the eqnarray node itself (same number)']
DECIDING_HOOKS = ['Context.label', 'Context.ref']
DECIDING_COUNTERS = {'recompiled_documents': 5, 'unnumbered_item_labels': 10, 'equal_objects_labelled': 10, 'references_checked': 100}


def budget(tier):
    return {'n': 500 if tier == 'quick' else 10000, 'case_timeout': 60}


_pending = []      # (obj, name, label) seen by Context.ref
_hook_viol = []


def setup(st):
    from plasTeX.Context import Context

    def after_ref(tok, res, exc, self, obj, name, label):
        if exc is None and label.strip():
            _pending.append((obj, name, label.strip()))

    def after_label(tok, res, exc, self, label, node=None):
        if exc is not None:
            return
        label = label.strip()
        target = self.labels.get(label)
        if target is None:
            return
        for obj, name, lab in _pending:
            if lab == label and obj.idref.get(name) is not target:
                _hook_viol.append('after label(%r) a pending reference (%s.%s) still holds %r' % (label, obj.nodeName, name, obj.idref.get(name)))
        st.counters['backpatch_checks'] += 1
    wrap(Context, 'ref', after=after_ref, stats=st)
    wrap(Context, 'label', after=after_label, stats=st)


def anchors():
    from plasTeX.Context import Context
    from plasTeX.TeX import TeX
    import plasTeX
    return {'Context.label': Context.label, 'Context.ref': Context.ref, 'TeX.castLabel': TeX.castLabel, 'TeX.castRef': TeX.castRef,
            'Macro.refstepcounter': plasTeX.Macro.refstepcounter, 'Macro.id': plasTeX.Macro.__dict__['id'].fget, 'Macro.idref': plasTeX.Macro.__dict__['idref'].fget}


def strip_refs(node, bag):
    """remove every ref inline from the AST (collecting them)"""
    if isinstance(node, list):
        keep = []
        for x in node:
            if isinstance(x, dict) and x.get('t') == 'ref':
                bag.append(x)
            else:
                strip_refs(x, bag)
                keep.append(x)
        node[:] = keep
    elif isinstance(node, dict):
        for v in node.values():
            if isinstance(v, (list, dict)):
                strip_refs(v, bag)


def variants(d):
    out = [('as-generated', d)]
    for where in ('refs-first', 'refs-last'):
        v = copy.deepcopy(d)
        bag = []
        strip_refs(v, bag)
        if not bag:
            continue
        para = {'t': 'para', 'c': [{'t': 'text', 'words': ['Wq9999x']}] + bag}
        if where == 'refs-first':
            v['c'].insert(0, para)
        elif v['secs']:
            last = v['secs'][-1]
            while last['subs']:
                last = last['subs'][-1]
            last['c'].append(para)
        else:
            v['c'].append(para)
        out.append((where, v))
    return out


def refs_of(d):
    out = []

    def f(n):
        if n.get('t') == 'ref':
            out.append([n['label'], bool(n.get('dangling'))])
    docs.walk(d, f)
    return out


def cases(seed, tier, shard, nshards):
    for i in common.sharded(budget(tier)['n'], shard, nshards):
        r = common.rng_for(seed, PROP, i)
        d = docs.gen(r, labels=True, refs=True, eqnarray=True, verbatim=False, boxes=r.random() < 0.3, footnotes=r.random() < 0.5, fonts=r.random() < 0.5,
                     tables=r.random() < 0.3, depth=r.choice([2, 3]), maxsec=r.choice([4, 8]), blocks=(1, 4), term_labels=r.choice([0, 0.5]), wide_labels=r.choice([0, 0, 0.4]), late_labels=r.choice([0, 0.5]))
        # sometimes two floats that are equal in everything but their label, as the last objects of the document
        twins = []
        suffix = ''
        if r.random() < 0.3:
            env = r.choice(['figure', 'table'])
            twins = ['twin:1', 'twin:2'] + (['twin:3'] if r.random() < 0.3 else [])
            suffix = '\n\n' + ''.join('\\begin{%s}Zq\\caption{Zc same caption}\\label{%s}\\end{%s}\n' % (env, t, env) for t in twins)
        vs = variants(d)
        redo = r.random() < 0.08
        for vi, (name, v) in enumerate(vs):
            exp, m = CM.numbers(v, 2)
            case = {'variant': name, 'src': docs.latex(v, body_suffix=suffix), 'objects': [[k, n, l] for k, n, l in exp], 'refs': refs_of(v), 'labels': v['labels'],
                    'twins': twins}
            if redo and len(vs) > 1:
                case['recompile'] = docs.latex(vs[(vi + 1) % len(vs)][1], body_suffix=suffix)
            yield case


def collect_nodes(node, out):
    for c in (node.childNodes if node.hasChildNodes() else []):
        if c.nodeType != 1:
            continue
        nm = c.nodeName
        if nm in SEC:
            out.append(('sec', c))
        elif nm in ('equation', 'equation*'):
            out.append(('equation', c))
        elif nm == 'eqnarray':
            for row in c.childNodes:
                if getattr(row, 'nodeName', None) == 'ArrayRow':
                    out.append(('eqnrow', row))
        elif nm == 'caption':
            out.append(('caption', c))
        elif nm == 'thmenv':
            out.append(('theorem', c))
        elif nm == 'item' and getattr(c.parentNode, 'nodeName', None) == 'enumerate':
            out.append(('item', c))
        collect_nodes(c, out)


def all_nodes(node, out, seen):
    if id(node) in seen:
        return
    seen.add(id(node))
    out.append(node)
    if getattr(node, 'nodeType', None) == 3:
        return
    a = getattr(node, 'attributes', None)
    if a:
        for k, v in a.items():
            if k != 'self' and getattr(v, 'nodeType', None) in (1, 11) and not isinstance(v, str):
                all_nodes(v, out, seen)
    for c in (node.childNodes if node.hasChildNodes() else []):
        all_nodes(c, out, seen)


def recompile(prev_src, src, st):
    import os, shutil, tempfile
    from plasTeX import Compile
    from ..obs import render as R
    tmp = tempfile.mkdtemp(prefix='c09r-', dir=os.environ.get('PVMON_TMP') or None)
    cwd = os.getcwd()
    try:
        os.chdir(tmp)
        for text in (prev_src, src):
            with open('job.tex', 'w', encoding='utf-8') as f:
                f.write(text)
            cfg = R.new_config({('general', 'renderer'): 'HTML5', ('files', 'log'): False})
            common.plastex_reset()
            tex = Compile.parse('job.tex', cfg)
            if text is prev_src:
                out = os.path.join(tmp, 'out')
                os.makedirs(out, exist_ok=True)
                os.chdir(out)
                try:
                    Compile.load_renderer('HTML5', cfg).render(tex.ownerDocument)
                finally:
                    os.chdir(tmp)
                common.plastex_reset()
                del _pending[:]
                del _hook_viol[:]        # the hook state belongs to the document that is judged (the second run)
        st.counters['recompiled_documents'] += 1
        return tex.ownerDocument
    finally:
        os.chdir(cwd)
        shutil.rmtree(tmp, ignore_errors=True)


def run(case, st):
    from plasTeX.TeX import TeX
    common.plastex_reset()
    del _pending[:]
    del _hook_viol[:]
    src = case['src']
    try:
        if case.get('recompile'):
            # the way the command-line program works on an edited document: a first run left job.paux behind (the same labels, written
            # in another arrangement), the document is processed again by Compile.parse in that directory
            doc = recompile(case['recompile'], src, st)
        else:
            tex = TeX()
            tex.input(src)
            doc = tex.parse()
    except common.CaseTimeout:
        raise
    except Exception as e:
        st.violation('parse-raises-' + type(e).__name__, case, traceback.format_exc()[-500:] + src[:800])
        return {'nontrivial': True}
    finally:
        common.plastex_reset()
    st.feature('variant', case['variant'])
    ctx = doc.context
    nodes = []
    collect_nodes(doc, nodes)
    objs = case['objects']
    twin_nodes = []
    tw = case.get('twins') or []
    if tw:
        # the equal floats stand at the very end: take their captions off the aligned list
        if len(nodes) >= len(tw) and all(k == 'caption' and 'Zc same caption' in str(n.textContent) for k, n in nodes[-len(tw):]):
            twin_nodes = [n for k, n in nodes[-len(tw):]]
            nodes = nodes[:-len(tw)]
    if [k for k, n in nodes] != [o[0] for o in objs]:
        st.outcomes['skip:alignment'] += 1
        st.notes['alignment-failed (C07/C08 territory)'] += 1
        return {'skip': 'alignment'}
    target = {}        # label -> (node, expected number, kind)
    bad = []
    for (k, n), (ek, num, lab) in zip(nodes, objs):
        if lab:
            target[lab] = (n, num, k)
    # labels attach to their object and become its identifier
    for lab, (n, num, k) in target.items():
        got = ctx.labels.get(lab)
        alt = n.parentNode if k == 'eqnrow' else None
        if got is None:
            bad.append(('label-not-registered', 'label %s (on a %s) is not registered' % (lab, k)))
        elif got is not n and got is not alt:
            bad.append(('label-on-wrong-object', 'label %s attaches to %s (ref %r) instead of the %s it was written in (number %r)' % (
                lab, got.nodeName, ref_text(got), k, num)))
        elif got.id != lab:
            bad.append(('label-not-identifier', 'object labelled %s has id %r' % (lab, got.id)))
        else:
            st.feature('labelled-kind', k)
    ids = [ctx.labels[l].id for l in target if l in ctx.labels]
    # labels written in items with an explicit term (no numbered object of their own): still distinct identifiers, and no numbered object may lose its own
    for xl in re.findall(r'\\label\{(xl:\d+)\}', src):
        st.counters['unnumbered_item_labels'] += 1
        got = ctx.labels.get(xl)
        if got is None:
            bad.append(('label-not-registered', 'label %s (in an item with an explicit term) is not registered' % xl))
        else:
            ids.append(got.id)
    for t, n in zip(tw, twin_nodes):
        st.counters['equal_objects_labelled'] += 1
        got = ctx.labels.get(t)
        if got is None:
            bad.append(('label-not-registered', 'label %s (on one of %d equal floats) is not registered' % (t, len(tw))))
        elif got is not n:
            bad.append(('label-on-wrong-object', 'label %s attaches to another of the equal floats (or to %s)' % (t, got.nodeName)))
        elif got.id != t:
            bad.append(('label-not-identifier', 'float labelled %s (equal to an earlier labelled float) has id %r' % (t, got.id)))
        else:
            ids.append(got.id)
    if len(set(ids)) != len(ids):
        bad.append(('identifiers-not-distinct', 'distinct labels share an identifier: %r' % ids))
    # references
    everything = []
    all_nodes(doc, everything, set())
    in_tree = set(id(x) for x in everything)
    refnodes = [x for x in everything if getattr(x, 'nodeName', None) in ('ref', 'pageref') and getattr(x, 'nodeType', None) == 1]
    if len(refnodes) != len(case['refs']):
        bad.append(('reference-count', '%d reference nodes in the tree, %d in the source' % (len(refnodes), len(case['refs']))))
    else:
        resolved = 0
        for rn, (lab, dangling) in zip(refnodes, case['refs']):
            st.counters['references_checked'] += 1
            got = rn.idref.get('label')
            if rn.attributes.get('label') != lab:
                bad.append(('reference-order', 'reference node %r does not carry label %s' % (rn.attributes.get('label'), lab)))
                break
            if dangling:
                if got is not None and id(got) in in_tree:
                    bad.append(('dangling-reference-resolved', 'reference to the non-existent label %s resolves to %s' % (lab, got.nodeName)))
                elif got is not None and getattr(got, 'ref', None) is not None:
                    bad.append(('dangling-reference-has-number', 'reference to the non-existent label %s shows %r' % (lab, ref_text(got))))
                st.feature('reference', 'dangling')
                continue
            n, num, k = target[lab]
            alt = n.parentNode if k == 'eqnrow' else None
            if got is not n and got is not alt:
                bad.append(('reference-wrong-target', '\\%s{%s} (%s) resolves to %s instead of the labelled %s' % (
                    rn.nodeName, lab, case['variant'], None if got is None else '%s id=%r in-tree=%s' % (got.nodeName, got.id, id(got) in in_tree), k)))
                continue
            if num != 'part' and not (num is not None and '?' in num) and ref_text(got) != num:
                bad.append(('reference-wrong-number', '\\ref{%s} shows %r, the labelled %s has number %r' % (lab, ref_text(got), k, num)))
                continue
            resolved += 1
            st.feature('reference', 'resolved:' + k)
    # unresolved table at end of parse == dangling labels
    want_dangling = set(l for l, d in case['refs'] if d)
    have = set(ctx.refs.keys())
    if have != want_dangling:
        bad.append(('pending-table', 'pending references at end of parse %r, dangling labels in the source %r' % (sorted(have), sorted(want_dangling))))
    for msg in _hook_viol[:1]:
        bad.append(('backpatch-incomplete-at-hook', msg))
    for kind, msg in bad[:3]:
        st.violation(kind, case, msg + '\n' + src[:1500])
    nres = sum(1 for l, d in case['refs'] if not d)
    return {'nontrivial': len(target) >= 2 and nres >= 2, 'sample': {'variant': case['variant'], 'labels': list(target)[:6], 'refs': case['refs'][:6]}}


def ref_text(n):
    r = getattr(n, 'ref', None)
    if r is None:
        return None
    return str(getattr(r, 'textContent', r)).strip()
