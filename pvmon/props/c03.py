"""C03 -- conditionals process exactly the branch TeX would select.

Monitor: reference expander (exact integer / Fraction evaluation of the tests)
beside the real parse.  Every branch of every generated conditional carries a
unique marker word and a \\stepcounter on a counter private to the branch, so
both observables of the statement are decided at the boundary: marker in text
<=> branch processed; counter value == number of times the reference took the
branch.  A wrapper on TeX.processIfContent logs which selector each real test
produced."""
import re, traceback
from .. import common
from ..instrument import wrap
from ..gen.conds import CondGen
from ..reftex import expand as E

PROP = 'C03'
LEVEL = 'exploration'
RULE = ('programs of 1-4 placed conditionals (top level, {}, \\begingroup, macro body, macro argument incl. duplicated and discarded arguments), '
        'each a tree of depth <= 4 over \\iftrue \\iffalse \\ifnum \\ifdim \\ifodd \\ifcase(1-6 cases, selector -2..8 or operand, with/without \\else) '
        '\\ifx(chars | plain macros) \\ifdefined \\newif switches with setters before/inside taken/inside untaken branches; operands literals '
        '(signs, octal, hex), \\value{c}, macro numbers, dimensions in 9 units; NF-1.  Non-trivial = at least one branch was not taken and the '
        'tree has depth >= 2; distinct by program text.')
ASSUMPTIONS = ['reference expander pvmon/reftex/expand.py', 'NF-1 (number literals \\relax-terminated)',
               '\\ifdim operands are textually identical or >= 1pt apart, so binary floating point cannot decide the comparison']
DECIDING_HOOKS = ['TeX.processIfContent']


def budget(tier):
    return {'n': 6000 if tier == 'quick' else 80000, 'case_timeout': 20}


_log = []


def setup(st):
    from plasTeX.TeX import TeX

    def before(self, which, debug=False):
        _log.append((type(which).__name__, which))
    wrap(TeX, 'processIfContent', before=before, stats=st)


def anchors():
    from plasTeX.TeX import TeX
    import plasTeX
    from plasTeX.Base.TeX import Primitives as P
    from plasTeX.Context import Context
    d = {'TeX.processIfContent': TeX.processIfContent, 'TeX.readInteger': TeX.readInteger, 'TeX.readDimen': TeX.readDimen,
         'NewIf.invoke': plasTeX.NewIf.invoke, 'IfTrue.invoke': plasTeX.IfTrue.invoke, 'IfFalse.invoke': plasTeX.IfFalse.invoke,
         'Context.newif': Context.newif}
    for n in ('ifnum', 'ifdim', 'ifodd', 'ifcase', 'ifx', 'ifdefined', 'iftrue', 'iffalse'):
        d[n + '.invoke'] = getattr(P, n).invoke
    return d


def cases(seed, tier, shard, nshards):
    n = budget(tier)['n']
    for i in common.sharded(n, shard, nshards):
        r = common.rng_for(seed, PROP, i)
        g = CondGen(r, maxdepth=r.choice([2, 3, 4]))
        p = g.program()
        yield {'program': p, 'branches': g.branches, 'features': sorted(g.features), 'forms': sorted(g.forms)}


def strip(s):
    return re.sub(r'\s+', '', s)


def run(case, st):
    from plasTeX.TeX import TeX
    p = case['program']
    try:
        exp, it = E.run(p)
    except (E.OutOfModel, E.TeXError) as e:
        st.outcomes['harness_error'] += 1
        st.notes['reference-rejects-program: %r: %s' % (e, p[:300])] += 1
        return {}
    del _log[:]
    common.plastex_reset()
    try:
        tex = TeX()
        tex.input(p)
        doc = tex.parse()
        got = doc.textContent
    except common.CaseTimeout:
        raise
    except Exception as e:
        st.violation(classify(case, it, 'raises-' + type(e).__name__), case, 'program %r raised %s' % (p, traceback.format_exc()[-600:]))
        return {'nontrivial': True}
    for f in case['features']:
        st.feature('construct', f)
    for f in case['forms']:
        st.feature('form@depth', f)
    for w in _log:
        st.feature('selector', '%s:%s' % (w[0], w[1] if w[0] == 'bool' else ('neg' if w[1] < 0 else min(w[1], 9))))
    bad = []
    if strip(got) != strip(exp):
        bad.append('text: expected %r, got %r' % (strip(exp), strip(got)))
    for name in case['branches']:
        want = it.counters.get(name, 0)
        have = doc.context.counters[name].value
        if want != have:
            bad.append('side effect: branch counter %s is %d, reference took the branch %d time(s)' % (name, have, want))
    if bad:
        st.violation(classify(case, it, 'branch'), case, 'program %r: %s' % (p, '; '.join(bad[:4])))
    if len(doc.context.contexts) != 1:
        st.violation('context-depth', case, 'program %r leaves context depth %d' % (p, len(doc.context.contexts)))
    untaken = sum(1 for n in case['branches'] if it.counters.get(n, 0) == 0)
    deep = any(int(f.split('@')[1]) >= 2 for f in case['forms'])
    return {'nontrivial': untaken > 0 and deep, 'sample': {'program': p, 'text': strip(exp)}}


def classify(case, it, symptom):
    # \ifcase whose selector is outside the listed cases
    feats = case['features']
    if any(f.startswith('ifcase:out') for f in feats):
        return 'ifcase-selector-out-of-range/' + symptom
    return 'conditional/' + symptom
