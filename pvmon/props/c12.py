"""C12 -- rendered HTML never turns document text into markup.

Monitor: every text leaf of a generated document carries a unique marker and,
for a share of the leaves, an adversarial wrapper (tag-like, entity-like,
script-like, quote, comment and CDATA-like strings, non-ASCII).  The output is
read back with Python's HTML5 tokenizer (html.parser, charrefs decoded):
(i)   the decoded text nodes must contain the leaf's characters exactly;
(ii)  differential inventory: the element/attribute inventory of the output
      must be a subset of the inventory obtained by rendering the same document
      with every adversarial leaf replaced by its bare marker (anything extra
      was created by document text);
(iii) attribute values that contain a marker must decode to the leaf's
      characters;
(iv)  with escape-high-chars the files are pure ASCII and decode to the same
      text as without.
A wrapper on PageTemplate.textDefault counts the text nodes that went through
the escaping hook."""
import os, re, html, traceback
from .. import common
from ..instrument import wrap
from ..gen import docs
from ..obs import render as R
from ..obs.tree import MARK_RE

PROP = 'C12'
LEVEL = 'exploration'
RULE = ('generated documents whose text leaves (running text, section titles, captions, footnotes, list items, description terms, table cells, '
        'theorem titles, boxes) are wrapped with probability 0.5 in one of 18 adversarial forms; verbatim and \\verb material with raw markup '
        'characters; x {HTML5 default, HTML5 minimal, XHTML default} x escape-high-chars on/off x output-encoding utf-8/ascii/latin-1.  Each case '
        'renders the document twice (adversarial / bare markers).  Non-trivial = >= 3 adversarial leaves; distinct by (document, settings).')
ASSUMPTIONS = ["'parsing the output as HTML' = Python's html.parser with convert_charrefs (HTML5 tokenizer rules), not every browser quirk",
               "plasTeX's documented quote/dash substitutions are applied to the expected characters", 'differential baseline: the same document with bare markers']
DECIDING_HOOKS = ['PageTemplate.textDefault']
DECIDING_COUNTERS = {'leaves_checked': 300}
SETUPS = [('HTML5', 'default'), ('HTML5', 'default'), ('HTML5', 'minimal'), ('XHTML', 'default')]
VERB_RAW = ['M<b>&amp;', '<script>M</script>', 'M&lt;"\'', '</pre>M', 'M&#60;&quot;']


def budget(tier):
    return {'n': 320 if tier == 'quick' else 6000, 'case_timeout': 120}


def setup(st):
    from plasTeX.Renderers.PageTemplate import Renderer as PT

    def after(tok, res, exc, self, s):
        if getattr(s, 'isMarkup', False):
            st.counters['textDefault_isMarkup'] += 1
    wrap(PT, 'textDefault', after=after, stats=st, hook='PageTemplate.textDefault')


def anchors():
    from plasTeX.Renderers.PageTemplate import Renderer as PT
    from plasTeX import Renderers as RR
    from plasTeX.Renderers.HTML5 import Renderer as H5
    return {'PageTemplate.textDefault': PT.textDefault, 'Renderable.__str__': RR.Renderable.__str__, 'PageTemplate.processFileContent': PT.processFileContent,
            'HTML5.processFileContent': H5.processFileContent}


def leaves_of(d):
    """[(expected characters, is_title, marker)] for adversarial leaves; verbatim material likewise"""
    out = []

    def inl(items, title):
        for n in items:
            t = n['t']
            if t == 'text' and 'adv' in n:
                out.append([docs.ADV_POOL[n['adv']][1].replace('M', n['words'][0]), title, n['words'][0], n['adv']])      # (the whole form, blanks included)
            elif t in ('fontcmd', 'fontdecl', 'footnote', 'box'):
                inl(n['c'], title)

    def blocks(bs, title=False):
        for b in bs:
            t = b['t']
            if t == 'para':
                inl(b['c'], title)
            elif t == 'list':
                for it in b['items']:
                    if 'term' in it:
                        inl(it['term'], title)
                    blocks(it['c'])
            elif t == 'tabular':
                for row in b['rows']:
                    for c in row['cells']:
                        inl(c['c'], title)
            elif t in ('env', 'theorem', 'float'):
                if t == 'theorem' and b['title'] is not None:
                    inl(b['title'], title)
                if t == 'float' and b['caption'] is not None:
                    inl(b['caption'], True)      # captions recur in lists of figures / link titles
                blocks(b['c'])
            elif t == 'raw' and 'expect' in b:
                out.append([b['expect'], False, b['marker'], -1])

    def sec(s):
        inl(s['title'], True)
        if s.get('toc'):
            k = len(out)
            inl(s['toc'], True)
            for leaf in out[k:]:
                leaf[1] = 'short'
        blocks(s['c'])
        for x in s['subs']:
            sec(x)
    blocks(d['c'])
    for s in d['secs']:
        sec(s)
    return out


def cases(seed, tier, shard, nshards):
    for i in common.sharded(budget(tier)['n'], shard, nshards):
        r = common.rng_for(seed, PROP, i)
        d = docs.gen(r, adversarial=0.5, verbatim=False, refs=False, labels=r.random() < 0.5, math=r.random() < 0.3, depth=r.choice([1, 2]), maxsec=r.choice([2, 4, 6]),
                     blocks=(1, 3), counters=False, eqnarray=False, star=True, short_titles=0.3)
        # raw markup characters in verbatim material (no adversarial/bare difference in the markup they may create: both must be text)
        k = 9000
        for _ in range(r.randint(0, 2)):
            k += 1
            m = 'Wq%dx' % k
            raw = r.choice(VERB_RAW).replace('M', m)
            # (plain and starred forms: the starred ones are other node types and may have templates of their own)
            star = '*' if r.random() < 0.35 else ''
            if r.random() < 0.5:
                d['c'].append({'t': 'raw', 'src': '\\begin{verbatim%s}\n%s\n\\end{verbatim%s}' % (star, raw, star), 'expect': raw, 'marker': m})
            else:
                d['c'].append({'t': 'raw', 'src': 'Wq%dx \\verb%s|%s| Wq%dx' % (k + 100, star, raw, k + 200), 'expect': raw, 'marker': m})
        # program listings (package listings): with and without the optional highlighter (pygments) being importable
        lst = r.random() < 0.3
        pre = ''
        if lst:
            pre = '\\usepackage{listings}\n'
            for _ in range(r.randint(1, 2)):
                k += 1
                m = 'Wq%dx' % k
                raw = r.choice(VERB_RAW).replace('M', m)
                opt = r.choice(['', '', '[language=Python]', '[language=zqnolang]'])
                if r.random() < 0.6:
                    d['c'].append({'t': 'raw', 'src': '\\begin{lstlisting}%s\n%s\n\\end{lstlisting}' % (opt, raw), 'expect': raw, 'marker': m})
                else:
                    d['c'].append({'t': 'raw', 'src': 'Wq%dx \\lstinline|%s| Wq%dx' % (k + 100, raw, k + 200), 'expect': raw, 'marker': m})
        # raw markup passed through on purpose (package embed) next to ordinary text with exactly the same characters:
        # only the former is markup
        embeds = 0
        if r.random() < 0.2:
            pre += '\\usepackage{embed}\n'
            k += 1
            rawm = '<hr class="zqraw"/>'
            emb = {'t': 'raw', 'src': 'Wq%dx \\html+%s+ Wq%dx' % (k + 300, rawm, k + 400)}
            txt = {'t': 'raw', 'src': 'Wq%dx \\verb|%s| Wq%dx' % (k + 100, rawm, k + 200), 'expect': rawm, 'marker': 'Wq%dx' % (k + 100)}
            d['c'].extend([emb, txt] if r.random() < 0.5 else [txt, emb])
            embeds = 1
        # a citation whose optional note carries raw markup characters (no ']' in the note)
        suffix = ''
        if r.random() < 0.3:
            k += 1
            m = 'Wq%dx' % k
            raw = r.choice([x for x in VERB_RAW if ']' not in x and '&' not in x] + ['M<b>x</b>', '<script>M</script>']).replace('M', m)
            rsrc = raw
            if r.random() < 0.3:
                # characters written as commands with a character of their own (\&, \textless): a template that prints the items of
                # the note one by one prints them too
                rsrc, raw = r.choice([('M\\&lt;b\\&gt;', 'M&lt;b&gt;'), ('M\\&\\#60;i', 'M&#60;i'), ('\\textless{}M\\textgreater{}', '<M>'), ('M\\&amp;', 'M&amp;')])
                rsrc, raw = rsrc.replace('M', m), raw.replace('M', m)
            d['c'].append({'t': 'raw', 'src': 'Wq%dx \\cite[%s]{zk1} Wq%dx' % (k + 100, rsrc, k + 200), 'expect': raw, 'marker': m})
            suffix = '\n\\begin{thebibliography}{9}\\bibitem{zk1} BibA1z\\end{thebibliography}\n'
        setup_ = r.choice(SETUPS)
        src = docs.latex(d, extra_preamble=pre, body_suffix=suffix)
        docs.ADV_ON[0] = False
        try:
            bare = docs.latex(d, extra_preamble=pre, body_suffix=suffix)
        finally:
            docs.ADV_ON[0] = True
        yield {'embeds': embeds, 'src': src, 'bare': bare, 'leaves': leaves_of(d), 'renderer': setup_[0], 'theme': setup_[1], 'escape': r.random() < 0.4,
               'encoding': r.choice(['utf-8', 'utf-8', 'ascii', 'latin-1']), 'level': r.choice([-10, 1, 2]),
               'pygments': (r.choice(['present', 'absent']) if lst else 'n/a')}


def nows(s):
    # only the blanks TeX and HTML treat as layout (not Unicode's other white-space characters: they are text)
    return re.sub(r'[ \t\r\n\f]+', '', s)


def read_all(out, enc):
    pages = {}
    raw = {}
    for root, dirs, files in os.walk(out.outdir):
        for f in files:
            if f.endswith(('.html', '.xhtml')):
                p = os.path.join(root, f)
                b = open(p, 'rb').read()
                raw[os.path.relpath(p, out.outdir)] = b
                pages[os.path.relpath(p, out.outdir)] = b.decode(enc, 'replace')
    return pages, raw


def run(case, st):
    common.plastex_reset()
    ov = {('general', 'theme'): case['theme'], ('files', 'escape-high-chars'): case['escape'], ('files', 'output-encoding'): case['encoding'],
          ('files', 'split-level'): case['level']}
    st.feature('settings', '%s/%s/esc=%s/%s' % (case['renderer'], case['theme'], case['escape'], case['encoding']))
    outs = []
    restore_pygments = None
    if case.get('pygments') == 'absent':
        # the optional dependency is missing: the package keeps working and the templates print the plain listing
        import plasTeX.Packages.listings as LST
        restore_pygments = (LST, LST.pygments)
        LST.pygments = None
    if case.get('pygments', 'n/a') != 'n/a':
        st.feature('listings', 'pygments-' + case['pygments'])
    try:
        for src in (case['src'], case['bare']):
            try:
                outs.append(R.render(src, case['renderer'], ov))
            except common.CaseTimeout:
                raise
            except Exception as e:
                st.violation('render-raises-' + type(e).__name__, case, '%s\n%s' % (traceback.format_exc()[-700:], src[:600]))
                return {'nontrivial': True}
            finally:
                common.plastex_reset()
        pages, raw = read_all(outs[0], case['encoding'])
        bare_pages, _ = read_all(outs[1], case['encoding'])
        bad = []
        parsed = {n: R.Page(t) for n, t in pages.items()}
        bparsed = {n: R.Page(t) for n, t in bare_pages.items()}
        # (ii) differential inventory
        inv = set()
        binv = set()
        for p in parsed.values():
            inv |= p.inventory()
        for p in bparsed.values():
            binv |= p.inventory()
        extra = sorted(inv - binv)
        if extra:
            where = ''
            for n, p in parsed.items():
                for tag, d, stk in p.elements:
                    if tag in extra or any((tag + '@' + k) in extra for k in d):
                        where = '%s: <%s %s> inside %s' % (n, tag, {k: (v or '')[:40] for k, v in d.items()}, '/'.join(stk[-3:]))
                        break
                if where:
                    break
            bad.append((inv_key(extra, where), 'elements/attributes not present in the bare-marker rendering: %r (%s)' % (extra[:6], where)))
        if case.get('embeds') is not None and 'zqraw' in case['src']:
            n_raw = sum(1 for p in parsed.values() for tag, d_, stk in p.elements if d_.get('class') == 'zqraw')
            st.counters['raw_embeds_checked'] += 1
            if n_raw != case['embeds']:
                bad.append(('markup-created-by-text' if n_raw > case['embeds'] else 'raw-embed-not-passed-through',
                            '%d elements of class zqraw in the output, the document embeds %d (the same characters also occur as ordinary text)' % (n_raw, case['embeds'])))
        if sorted(pages) != sorted(bare_pages):
            bad.append(('file-set-differs', 'adversarial text changed the set of output files: %r vs %r' % (sorted(pages), sorted(bare_pages))))
        # comments / declarations created by text
        ncom = sum(len(p.comments) for p in parsed.values())
        bcom = sum(len(p.comments) for p in bparsed.values())
        if ncom != bcom:
            bad.append(('comment-created-by-text', '%d comments in the output, %d in the bare-marker rendering' % (ncom, bcom)))
        # (i) text nodes carry the leaf's characters
        alltext = {n: nows(''.join(t for t, stk in p.texts if not any(s in ('script', 'style') for s in stk))) for n, p in parsed.items()}
        joined = ''.join(alltext.values())
        for exp, is_title, marker, advi in case['leaves']:
            st.counters['leaves_checked'] += 1
            e = nows(exp)
            cnt = joined.count(e)
            st.feature('adversarial-form', advi)
            if cnt == 0 and is_title == 'short' and marker not in joined:
                # a short title is printed by tables of contents and navigation only: not every theme and split level shows one
                st.counters['short_titles_not_shown'] += 1
                continue
            if is_title == 'short':
                st.counters['short_titles_shown'] += 1
            if cnt == 0:
                # what is displayed around the marker instead?
                i = joined.find(marker)
                ctx = joined[max(0, i - 25):i + 40] if i >= 0 else '(marker not in any text node)'
                bad.append(('text-not-displayed-as-written/%s' % ('short-title' if is_title == 'short' else 'title' if is_title else 'body'), 'leaf %r is not displayed; around its marker the text nodes read %r' % (exp, ctx)))
        # (iii) attribute values containing a marker
        exp_of = {m: e for e, t, m, a in case['leaves']}
        for n, p in parsed.items():
            for tag, d, stk in p.elements:
                for k, v in d.items():
                    if not v:
                        continue
                    for m in MARK_RE.findall(v):
                        # (link titles and alt texts are plain-text renderings whose white space -- Unicode's included -- is normalised)
                        if m in exp_of and re.sub(r'\s+', '', exp_of[m]) not in re.sub(r'\s+', '', v):
                            bad.append(('attribute-value-alters-text', '%s: <%s %s=%r> carries marker %s but not its characters %r' % (n, tag, k, v[:80], m, exp_of[m])))
        # (iv) escape-high-chars: pure ASCII
        if case['escape']:
            for n, b in raw.items():
                try:
                    b.decode('ascii')
                except UnicodeDecodeError as e:
                    bad.append(('escape-high-chars-not-ascii', '%s is not pure ASCII with escape-high-chars on: %r' % (n, b[max(0, e.start - 20):e.start + 10])))
                    break
        seen = set()
        for kind, msg in bad:
            if kind in seen:
                continue
            seen.add(kind)
            st.violation(kind, case, '%s/%s escape=%s encoding=%s: %s' % (case['renderer'], case['theme'], case['escape'], case['encoding'], msg))
        return {'nontrivial': len(case['leaves']) >= 3, 'sample': {'leaves': [l[0] for l in case['leaves'][:5]], 'renderer': case['renderer']}}
    finally:
        if restore_pygments:
            restore_pygments[0].pygments = restore_pygments[1]
        for o in outs:
            o.cleanup()


def inv_key(extra, where):
    if any(x.endswith('@onx') or '@onx' in x for x in extra):
        return 'attribute-injected-through-quote'
    return 'markup-created-by-text'
