"""C13 -- rendering splits the document into files without losing or repeating content.

Monitors: (1) file-partition model: from the AST, the split level and the
filename template, which units produce a file and which file every marker word
belongs to; the output directory is read back with an independent HTML parser
and every body marker must occur exactly once, in its file, in document order
(footnotes aside); section-title markers at least once in a heading of the
unit's own file; (2) exactly-once writes from the audit log (sys.addaudithook
'open' events): no output file is opened for writing twice during one render;
(3) determinism: the same input rendered in two separate processes with
different PYTHONHASHSEED gives the same file names and the same marker
partition; (4) a wrapper on Renderable.filename / Filenames.__next__ logs the
names issued in document order."""
import os, re, sys, json, subprocess, traceback
from .. import common
from ..instrument import wrap, wrap_property, AuditLog
from ..gen import docs
from ..obs import render as R
from ..obs.tree import MARK_RE

PROP = 'C13'
LEVEL = 'exploration'
RULE = ('generated documents (article/book, 1-12 sectioning units incl. \\part, footnotes, floats, lists, tabulars, verbatim, math) x split-level in '
        '-10..6 x filename templates {default index [$id, sect$num(4)]; index [$title(3), s$num]; [$id-$num(2), f$num(3)]; a b c [x$num]; $jobname-$num(3) '
        '(single file); all (single file)} x bad-chars settings x {HTML5 default, HTML5 minimal, XHTML default}; plus determinism pairs in separate '
        'processes.  Non-trivial = >= 2 files produced or a single-file template with >= 2 sectioning units; distinct by (document, settings).')
ASSUMPTIONS = ['file-partition model in pvmon/props/c13.py', "stdlib html.parser as the reading of the output; text inside <head>, <nav>, <script>, <style> and "
               "attribute values is not body text", 'math markers may be carried by the alt attribute of an image under the XHTML renderer',
               'the i-th file-producing unit of the AST corresponds to the i-th name issued by Renderable.filename (document order)']
DECIDING_HOOKS = ['Renderable.filename', 'Filenames.__next__']
DECIDING_COUNTERS = {'body_markers_located': 500}
TEMPLATES = ['index [$id, sect$num(4)]', 'index [$id, sect$num(4)]', 'index [$title(3), s$num]', 'index [$title, sect$num(4)]', '[$id-$num(2), f$num(3)]', 'a b c [x$num]', '$jobname-$num(3)', 'all',
             'index [ $id , sect$num(4) ]']      # (layout blanks inside the brackets belong to no name)
BADCHARS = [None, None, (': #$%^&*!~`"\'=?/{}[]()|<>;\\,.', '-'), (': ', '_'), (':;,. -', 'Z')]
SETUPS = [('HTML5', 'default'), ('HTML5', 'default'), ('HTML5', 'minimal'), ('XHTML', 'default')]
# for this check only: a renderer without page templates and layouts (the manual's first example), which takes the other path through
# Renderable.__str__; headings are not judged under it
C13_SETUPS = SETUPS + [('Plain', 'none')]


def budget(tier):
    q = tier == 'quick'
    return {'n': 320 if q else 8000, 'n_det': 16 if q else 300, 'case_timeout': 120}


_issued = []


def setup(st):
    from plasTeX.Renderers import Renderable
    from plasTeX.Filenames import Filenames

    def after(self, res):
        if res is not None:
            _issued.append((self.nodeName, res))
    wrap_property(Renderable, 'filename', after=after, stats=st)
    wrap(Filenames, '__next__', stats=st)
    from plasTeX.Renderers import Renderer

    def before_cleanup(self, *a, **k):
        # post-processing rewrites every file once more by design; exactly-once is about str(document)
        if AuditLog.active is not None:
            AuditLog.active.render_phase_end = len(AuditLog.active.writes)
    wrap(Renderer, 'cleanup', before=before_cleanup, stats=st)
    from plasTeX.Renderers.PageTemplate import Renderer as PT
    if 'cleanup' in PT.__dict__:
        wrap(PT, 'cleanup', before=before_cleanup, stats=st, hook='PageTemplate.cleanup')


def anchors():
    from plasTeX import Renderers as RR
    from plasTeX.Filenames import Filenames
    return {'Renderable.filename': RR.Renderable.__dict__['filename'], 'Renderable.__str__': RR.Renderable.__str__, 'Renderer.cacheFilenames': RR.Renderer.cacheFilenames,
            'Renderer.render': RR.Renderer.render, 'Filenames._newFilename': Filenames._newFilename}


POOLS = {'index [$id, sect$num(4)]': ['index', 'index', 'sect0001', 'sect0002', 'sect0003', 'index.html', 'sect0002.html', 'Index', 'dup:1', 'dup 1', 'dup_1'],
         'index [$title(3), s$num]': ['index', 's1', 's2', 'dup:1', 'dup 1'],
         '[$id-$num(2), f$num(3)]': ['f001', 'f002', 'f003', 'f001.html', 'dup:1', 'dup 1', 'dup_1', 'a-02', 'a-03'],
         'a b c [x$num]': ['a', 'b', 'c', 'x1', 'x2'],
         '$jobname-$num(3)': ['job-001', 'job-002', 'job'],
         'all': ['all', 'all.html']}


def gen_doc(r, template=None):
    return docs.gen(r, grouped_heads=r.choice([0, 0.3]), parts=r.random() < 0.3, labels=True, refs=r.random() < 0.5, depth=r.choice([1, 2, 2]), maxsec=r.choice([3, 6, 12]), counters=False,
                    hostile_labels=r.choice([0, 0.4, 0.8]), hostile_pool=POOLS.get(template), adversarial=r.choice([0, 0, 0.3]), deep6=True, empty_titles=r.choice([0, 0, 0.15]), theorems=r.random() < 0.3, eqnarray=False, blocks=(1, 3),
                    cls=r.choice(['article', 'book']))


def cases(seed, tier, shard, nshards):
    b = budget(tier)
    for i in common.sharded(b['n'], shard, nshards):
        r = common.rng_for(seed, PROP, i)
        template = r.choice(TEMPLATES)
        d = gen_doc(r, template)
        if '$title' in template and r.random() < 0.4:
            # units whose titles differ only in characters outside ASCII, or consist of such characters only: still different units
            lvl = r.choice([1, 1, 2])
            for k, ttl in enumerate(r.choice([['R\u00e9sum\u00e9', 'Resume'], ['\u03a9\u03a9\u03a9', '\u0416\u0416\u0416', '\u4e2d\u6587'], ['na\u00efve Ab', 'naive Ab'],
                                               ['Ab \u2014 c', 'Ab - c', 'Ab c']])):
                d['secs'].append({'t': 'sec', 'level': lvl, 'star': False, 'title': [{'t': 'text', 'words': [ttl]}], 'subs': [], 'label': None, 'toc': None,
                                  'c': [{'t': 'para', 'c': [{'t': 'text', 'words': ['Wq%dx' % (9800 + k)]}]}]})
        setup_ = r.choice(C13_SETUPS)
        # footnotes with identical text in the first and the last unit: each must still be printed (equal content is not the same footnote)
        same = r.randint(2, 3) if r.random() < 0.3 else 0
        pre = ' '.join('Fn%dz\\footnote{Zf7y same note}' % k for k in range(same - 1)) + ('\n\n' if same else '')
        suf = ('\n\nFnlz\\footnote{Zf7y same note}\n' if same else '')
        yield {'kind': 'split', 'src': docs.latex(d, body_prefix=pre, body_suffix=suf), 'same_notes': same, 'truth': truth(d), 'level': r.choice([-10, -2, -1, 0, 1, 1, 2, 2, 3, 4, 4, 5, 6]), 'template': template,
               'bad': r.choice(BADCHARS), 'renderer': setup_[0], 'theme': setup_[1]}
    for i in common.sharded(b['n_det'], shard, nshards):
        r = common.rng_for(seed, PROP, i, 'det')
        d = gen_doc(r)
        yield {'kind': 'determinism', 'src': docs.latex(d), 'level': r.choice([0, 1, 2, 3]), 'template': r.choice(TEMPLATES[:5]), 'renderer': r.choice(['HTML5', 'XHTML'])}


# ---------------------------------------------------------------------------
# truth from the AST: units in document order and the markers each one owns directly

def truth(d):
    """-> {'units': [{'level':, 'title': [markers], 'body': [markers], 'foot': [markers], 'math': [...], 'parent': index}]}"""
    units = []

    def split(blocks, u):
        for b in blocks:
            collect_block(b, units[u])

    def sec(s, parent):
        units.append({'level': s['level'], 'title': [], 'body': [], 'foot': [], 'math': [], 'parent': parent})
        me = len(units) - 1
        collect_inlines(s['title'], units[me], target='title')
        split(s['c'], me)
        for sub in s['subs']:
            sec(sub, me)
    units.append({'level': -10 ** 9, 'title': [], 'body': [], 'foot': [], 'math': [], 'parent': None})
    split(d['c'], 0)
    for s in d['secs']:
        sec(s, 0)
    # containment follows the sectioning levels in document order (a \part holds the chapters after it)
    stack = [0]
    for i in range(1, len(units)):
        while len(stack) > 1 and units[stack[-1]]['level'] >= units[i]['level']:
            stack.pop()
        units[i]['parent'] = stack[-1]
        stack.append(i)
    return {'units': units}


def collect_inlines(items, u, target='body'):
    for n in items:
        t = n['t']
        if t == 'text':
            u[target].extend(w_ for w_ in n['words'] if MARK_RE.fullmatch(w_))
        elif t in ('fontcmd', 'fontdecl', 'box'):
            collect_inlines(n['c'], u, target)
        elif t == 'footnote':
            collect_inlines(n['c'], u, 'foot' if target == 'body' else target)
        elif t == 'imath':
            u[target].extend(n['words'])
            u['math'].extend(n['words'])
        elif t == 'verb':
            u[target].extend(MARK_RE.findall(n['body']))


def collect_block(b, u):
    t = b['t']
    if t == 'para':
        collect_inlines(b['c'], u)
    elif t == 'list':
        for it in b['items']:
            if 'term' in it:
                collect_inlines(it['term'], u)
            for x in it['c']:
                collect_block(x, u)
    elif t == 'tabular':
        for row in b['rows']:
            for c in row['cells']:
                collect_inlines(c['c'], u)
                if c.get('nested'):
                    collect_block(c['nested'], u)
    elif t in ('env', 'theorem', 'float'):
        if t == 'theorem' and b['title'] is not None:
            collect_inlines(b['title'], u)
        if t == 'float' and b['caption'] is not None and b['caption_first']:
            collect_inlines(b['caption'], u)
        for x in b['c']:
            collect_block(x, u)
        if t == 'float' and b['caption'] is not None and not b['caption_first']:
            collect_inlines(b['caption'], u)
    elif t in ('dmath', 'equation'):
        u['body'].extend(b['words'])
        u['math'].extend(b['words'])
    elif t == 'eqnarray':
        for row in b['rows']:
            u['body'].extend(row['words'])
            u['math'].extend(row['words'])
    elif t == 'verbatim':
        u['body'].extend(MARK_RE.findall(b['body']))


def partition(tr, level, single):
    """file index of every unit; file 0 is the document"""
    owner = []
    nfiles = 0
    for i, u in enumerate(tr['units']):
        if i == 0:
            owner.append(0)
            nfiles = 1
        elif not single and u['level'] <= level:
            owner.append(nfiles)
            nfiles += 1
        else:
            owner.append(owner[u['parent']])
    return owner, nfiles


# ---------------------------------------------------------------------------

def overrides(case):
    ov = {('files', 'split-level'): case['level'], ('files', 'filename'): case['template'], ('general', 'theme'): case.get('theme', 'default')}
    if case.get('bad'):
        ov[('files', 'bad-chars')] = case['bad'][0].replace('%', '%%')
        ov[('files', 'bad-chars-sub')] = case['bad'][1]
    return ov


def body_markers(page_text, xhtml=False):
    p = R.Page(page_text)
    skip = ('head', 'nav', 'script', 'style', 'title')
    out = []
    heads = []
    for t, stk in p.texts:
        if any(s in skip for s in stk):
            continue
        ms = MARK_RE.findall(t)
        out.extend(ms)
        if any(s in ('h1', 'h2', 'h3', 'h4', 'h5', 'h6') for s in stk):
            heads.extend(ms)
    alts = []
    for tag, d, stk in p.elements:
        if tag == 'img' and d.get('alt') and not any(s in skip for s in stk):
            alts.extend(MARK_RE.findall(d['alt']))
    return out, heads, alts, p


def run(case, st):
    if case['kind'] == 'determinism':
        return run_det(case, st)
    common.plastex_reset()
    del _issued[:]
    src = case['src']
    single = (' ' not in case['template'].strip() and '[' not in case['template'])
    tr = case['truth']
    owner, nfiles = partition(tr, case['level'], single)
    st.feature('split-level', case['level'])
    st.feature('template', case['template'])
    st.feature('renderer/theme', '%s/%s' % (case['renderer'], case['theme']))
    log = AuditLog()
    try:
        with log:
            out = R.render(src, case['renderer'], overrides(case))
    except common.CaseTimeout:
        raise
    except Exception as e:
        st.violation(ckey(case, 'render-raises-' + type(e).__name__), case, 'level=%s template=%r: %s\n%s' % (case['level'], case['template'], traceback.format_exc()[-700:], src[:600]))
        return {'nontrivial': True}
    finally:
        common.plastex_reset()
    try:
        names = list(out.files.values())
        pages = R.read_output(out.outdir, 'utf-8', also=names)
        bad = []
        # --- names ------------------------------------------------------
        if len(set(names)) != len(names):
            bad.append(('duplicate-filename', 'names issued twice: %r' % [n for n in names if names.count(n) > 1][:3]))
        if len(names) != nfiles:
            bad.append(('file-count', '%d files issued (%r), the split level %s gives %d file-producing units' % (len(names), names[:8], case['level'], nfiles)))
        badchars = case['bad'][0] if case.get('bad') else ': #$%^&*!~`"\'=?/{}[]()|<>;\\,.'
        # characters the template itself spells out are the author's business; blanks, commas and brackets only separate the names of a template
        lit = set(re.sub(r'\$\{?\w+\}?(\(\d+\))?', '', case['template'])) - set(' \t,[]')
        for n in names:
            stem = n.rsplit('.', 1)[0]
            offending = [c for c in stem if c in badchars and c not in lit]
            if offending:
                bad.append(('forbidden-character-in-filename', 'file name %r contains %r' % (n, offending)))
                break
        for n in names:
            if n not in pages:
                bad.append(('file-not-written', 'name %r was issued but no such file is in the output directory %r' % (n, sorted(pages))))
                break
        # --- exactly-once writes ------------------------------------------
        writes = [os.path.relpath(os.path.join(out.outdir, w) if not os.path.isabs(w) else w, out.outdir) for w in log.writes[:getattr(log, 'render_phase_end', len(log.writes))]]
        for n in set(names):
            k = writes.count(n)
            if k != 1:
                bad.append(('file-written-%d-times' % k, 'output file %r was opened for writing %d times during the render' % (n, k)))
                break
        # --- partition ------------------------------------------------------
        if not bad:
            xhtml = case['renderer'] == 'XHTML'
            per = {}
            for n in names:
                per[n] = body_markers(pages[n], xhtml)
            where = {}
            for n in names:
                for m in per[n][0]:
                    where.setdefault(m, []).append(n)
                if xhtml:
                    for m in per[n][2]:
                        where.setdefault(m, []).append(n)
            if case.get('same_notes'):
                st.counters['identical_footnotes'] += case['same_notes']
                shown = sum(re.sub(r'<[^>]*>', ' ', pages[n]).count('Zf7y same note') for n in names)
                if shown != case['same_notes']:
                    bad.append(('text-lost' if shown < case['same_notes'] else 'text-repeated',
                                'the text of %d footnotes with identical wording is printed %d time(s) over all files' % (case['same_notes'], shown)))
            titles = set(m for u in tr['units'] for m in u['title'])
            for ui, u in enumerate(tr['units']):
                fname = names[owner[ui]]
                for kind in ('body', 'foot'):
                    for m in u[kind]:
                        st.counters['body_markers_located'] += 1
                        w = where.get(m, [])
                        if not w:
                            bad.append(('text-lost', '%s marker %s of unit %d appears in no output file (expected in %s)' % (kind, m, ui, fname)))
                        elif len(w) > 1:
                            bad.append(('text-repeated', '%s marker %s appears %d times: %r' % (kind, m, len(w), w)))
                        elif w[0] != fname:
                            bad.append(('text-in-wrong-file', '%s marker %s of unit %d (level %s) is in %s, its nearest file-producing ancestor is %s' % (kind, m, ui, u['level'], w[0], fname)))
                        if bad:
                            break
                    if bad:
                        break
                if bad:
                    break
                if ui and u['title'] and not single and case['renderer'] != 'Plain':
                    heads = per[fname][1]
                    missing = [m for m in u['title'] if m not in heads and m not in per[fname][2] and m not in u['math']]
                    if missing and u['level'] <= case['level']:
                        bad.append(('title-not-in-own-file-heading', 'title markers %r of unit %d are in no heading of its file %s' % (missing[:3], ui, fname)))
                        break
            # order within each file (footnotes aside)
            if not bad:
                for fi, n in enumerate(names):
                    want = [m for ui, u in enumerate(tr['units']) if owner[ui] == fi for m in u['body'] if m not in u['math'] or not xhtml]
                    foot = set(m for u in tr['units'] for m in u['foot'])
                    got = [m for m in per[n][0] if m in set(want) and m not in titles]
                    want2 = [m for m in want if m not in titles]
                    if got != want2:
                        k = 0
                        while k < min(len(got), len(want2)) and got[k] == want2[k]:
                            k += 1
                        bad.append(('order-within-file', 'file %s: body text order differs at %d: expected %r, found %r' % (n, k, want2[k:k + 4], got[k:k + 4])))
                        break
        for kind, msg in bad[:3]:
            st.violation(ckey(case, kind), case, 'level=%s template=%r renderer=%s/%s: %s' % (case['level'], case['template'], case['renderer'], case['theme'], msg))
        if not bad and common.case_hash(case)[0] % 6 == 0:
            again_other_setting(case, st)
        st.feature('files-produced', min(len(names), 8))
        nsec = len(tr['units']) - 1
        return {'nontrivial': len(names) >= 2 or (single and nsec >= 2), 'sample': {'level': case['level'], 'template': case['template'], 'files': names[:6]}}
    finally:
        out.cleanup()


def ckey(case, kind):
    return kind


def again_other_setting(case, st):
    """'The same on every run of the same input' includes a run that comes after other runs in the same interpreter: the document
    just rendered is rendered once more here under another bad-chars setting, and the names must be the ones a fresh process
    issues for that input and setting (and obey that setting)."""
    cur = case.get('bad')
    others = [b for b in BADCHARS if b is not None and b != cur] + ([None] if cur is not None else [])
    other = others[common.case_hash(case)[1] % len(others)]
    c2 = dict(case, bad=other, kind='determinism')
    common.plastex_reset()
    try:
        out = R.render(c2['src'], c2['renderer'], overrides(c2))
    except common.CaseTimeout:
        raise
    except Exception as e:
        st.violation('again/render-raises-' + type(e).__name__, case, 'second rendering under bad-chars %r: %s' % (other, traceback.format_exc()[-500:]))
        return
    finally:
        common.plastex_reset()
    try:
        names = list(out.files.values())
    finally:
        out.cleanup()
    env = dict(os.environ)
    p = subprocess.run([sys.executable, '-m', 'pvmon.props.c13'], input=json.dumps(c2), capture_output=True, text=True, env=env, timeout=100)
    if p.returncode != 0:
        st.notes['again: fresh process failed'] += 1
        return
    fresh = json.loads(p.stdout)['names']
    st.counters['reruns_under_other_setting'] += 1
    if names != fresh:
        diff = [(a, b) for a, b in zip(names, fresh) if a != b][:3]
        st.violation('names-depend-on-earlier-runs', case, 'level=%s template=%r: rendered after the same document under bad-chars %r, the run under bad-chars %r issues %r where a fresh process issues %r' % (
            case['level'], case['template'], cur, other, [d[0] for d in diff] or names, [d[1] for d in diff] or fresh))


def run_det(case, st):
    """same input, two separate processes with different hash seeds"""
    res = []
    for hs in ('1', '4242'):
        env = dict(os.environ)
        env['PYTHONHASHSEED'] = hs
        p = subprocess.run([sys.executable, '-m', 'pvmon.props.c13'], input=json.dumps(case), capture_output=True, text=True, env=env, timeout=100)
        if p.returncode != 0:
            st.violation('determinism/render-fails', case, 'child process failed: %s' % p.stderr[-500:])
            return {'nontrivial': True}
        res.append(json.loads(p.stdout))
    st.counters['determinism_pairs'] += 1
    if res[0] != res[1]:
        st.violation('nondeterministic-output', case, 'two runs of the same input differ: %r vs %r' % (res[0]['names'], res[1]['names']))
    return {'nontrivial': len(res[0]['names']) >= 2, 'sample': {'names': res[0]['names'][:6]}}


if __name__ == '__main__':
    # child of run_det: render and print names + marker partition
    import logging
    logging.disable(logging.CRITICAL)
    case = json.loads(sys.stdin.read())
    case.setdefault('theme', 'default')
    out = R.render(case['src'], case['renderer'], overrides(case))
    try:
        names = list(out.files.values())
        pages = R.read_output(out.outdir, also=names)
        part = {n: MARK_RE.findall(R.canon_ids(pages.get(n, ''))) for n in names}
        print(json.dumps({'names': names, 'partition': part, 'files': sorted(pages)}))
    finally:
        out.cleanup()
