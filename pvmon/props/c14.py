"""C14 -- every internal link in the rendered output lands on an existing target.

Monitor: the whole output directory is read back with an independent HTML
parser; the href/id graph is checked offline: every internal <a href> (and
<link rel=next/prev/up/...>) names a produced file and, if it has a fragment,
an element with that id (or <a name>) in that file; ids are unique per file; a
resolved \\ref shows the number the LaTeX counter machine gives and points to
the file of its target (C13 partition) + the target's id; with a table of
contents every produced file is reachable from the start page.  A wrapper on
Renderable.url counts evaluations by node type."""
import os, re, traceback, collections
from .. import common
from ..instrument import wrap_property
from ..gen import docs
from ..model import counters as CM
from ..obs import render as R
from . import c13

PROP = 'C14'
LEVEL = 'exploration'
RULE = ('generated documents with labels/references across files (sections, equations, items, captions, theorems), footnotes, \\index entries + '
        '\\printindex, thebibliography + \\cite, at split levels -10..4, toc-depth 0..4, toc-non-files on/off, base-url empty/set, HTML5 default / HTML5 '
        'minimal / XHTML default; a final paragraph of framed references (RfA<k>z \\ref{..} RfB<k>z) lets the reader locate every reference link.  '
        'Non-trivial = >= 2 files and >= 3 internal links; distinct by (document, settings).')
ASSUMPTIONS = ['stdlib html.parser; internal = href without scheme, not starting with // or mailto:', 'stylesheet/script/icon resources of a theme are not '
               'hyperlinks to parts of the document (copy-theme-extras is off in the harness)', 'C08 counter machine for expected numbers, C13 partition for expected files']
DECIDING_HOOKS = ['Renderable.url']
DECIDING_COUNTERS = {'hrefs_checked': 500}
NAVRELS = ('next', 'prev', 'previous', 'up', 'start', 'first', 'last', 'contents', 'index', 'glossary', 'bookmark', 'section', 'subsection', 'chapter', 'appendix', 'help', 'search', 'copyright')


def budget(tier):
    return {'n': 320 if tier == 'quick' else 8000, 'case_timeout': 120}


def setup(st):
    from plasTeX.Renderers import Renderable

    def after(self, res):
        st.counters['url:' + str(getattr(self, 'nodeName', '?'))[:20]] += 0
    wrap_property(Renderable, 'url', stats=st)


def anchors():
    from plasTeX import Renderers as RR
    import plasTeX
    from plasTeX.Base.LaTeX.Sectioning import SectionUtils
    return {'Renderable.url': RR.Renderable.__dict__['url'], 'Macro.id': plasTeX.Macro.__dict__['id'].fget,
            'SectionUtils.tableofcontents': getattr(SectionUtils.__dict__['tableofcontents'], 'fget', None) or getattr(SectionUtils.__dict__['tableofcontents'], '_func', None)}


WORDS = ['apple', 'Banana', 'cherry', 'zeta', 'x1', '42', 'Tree']
IDX_AT = ['zeta@alpha', 'apple@Zed', 'cherry@42nd', 'tree@Apple!sub', 'banana@cherry']


# section labels that collide with names the default template issues (or with each other once forbidden characters are replaced)
HOSTILE = ['index', 'index', 'sect0001', 'sect0002', 'sect0003', 'index.html', 'Index', 'dup:1', 'dup 1', 'dup_1']


def cases(seed, tier, shard, nshards):
    for i in common.sharded(budget(tier)['n'], shard, nshards):
        r = common.rng_for(seed, PROP, i)
        d = docs.gen(r, grouped_heads=r.choice([0, 0.3]), parts=r.random() < 0.2, labels=True, refs=True, depth=r.choice([1, 2]), maxsec=r.choice([3, 6, 10]), counters=False,
                     hostile_labels=r.choice([0, 0, 0.5]), hostile_pool=HOSTILE, theorems=r.random() < 0.4, eqnarray=r.random() < 0.5, blocks=(1, 3), cls=r.choice(['article', 'book']), verbatim=False, fonts=False)
        # framed references at the very end of the last unit
        labels = list(d['labels'])
        framed = []
        fwd_refs = ''
        if labels:
            # forward references in the first paragraph of the document, the same label more than once
            fwd = []
            if r.random() < 0.6:
                for l in [r.choice(labels) for _ in range(r.choice([1, 2]))]:
                    fwd.extend([l] * r.choice([1, 2, 2, 3]))
            picks = [r.choice(labels) for _ in range(min(6, len(labels) + 1))]
            picks += [l for l in labels if l.startswith('eq')][:3]          # equations and eqnarray rows are always among the referenced objects
            fwd_refs = ' '.join('RfA%dz \\ref{%s} RfB%dz' % (k, l, k) for k, l in enumerate(fwd))
            src_refs = ' '.join('RfA%dz \\ref{%s} RfB%dz' % (k + len(fwd), l, k + len(fwd)) for k, l in enumerate(picks))
            framed = fwd + picks
        else:
            src_refs = ''
        extra_body = ''
        use_index = r.random() < 0.35
        use_bib = r.random() < 0.3
        prefix = fwd_refs + '\n\n' if fwd_refs else ''
        if use_index:
            # plain entries and sort@display entries whose two parts start with different letters
            prefix += ' '.join('Ix%dz\\index{%s}' % (k, r.choice(WORDS + IDX_AT)) for k in range(r.randint(1, 6))) + '\n\n'
        if use_index and r.random() < 0.5:
            # index entries as the first thing of a list item and between \begin{..} and the first \item (no text before them)
            prefix += '\\begin{itemize}\\index{%s}\n\\item\\index{%s} IxLaz\n\\item \\index{%s}IxLbz\\end{itemize}\n\n' % (r.choice(WORDS), r.choice(WORDS), r.choice(WORDS))
        if use_index and r.random() < 0.4:
            # link targets written inside an optional argument (the term of a description item): index entries and a footnote
            prefix += '\\begin{description}\\item[IxTaz\\index{%s}] IxTbz\n\\item[IxTcz\\footnote{Zf7y term note}] IxTdz \\index{%s}\\end{description}\n\n' % (r.choice(WORDS), r.choice(WORDS))
        index_in_bib = use_index and use_bib and r.random() < 0.5
        natbib = use_bib and r.random() < 0.4
        if natbib:
            # the natbib commands in numeric mode (author-year mode needs the .aux file of a LaTeX run)
            prefix += 'Cite \\citep{zk1} and \\citet[p.~2]{zk2} and \\cite{zk1,zk2}.\n\n'
        elif use_bib:
            prefix += 'Cite \\cite{zk1} and \\cite{zk2}.\n\n'
        suffix = '\n\n' + src_refs + '\n'
        if r.random() < 0.35:
            # footnotes with identical text (and an identical pair of index entries): equal content must not be taken for the same node
            note = '\\footnote{Zf%dy same note}' % r.randint(1, 2)
            prefix += 'Fna %s Fnb %s\n\n' % (note, note)
            suffix += '\nFnc %s\n' % note
        handnum = r.random() < 0.25
        if handnum:
            # something numbered by hand (\refstepcounter in running text) with a label behind it, referred to from here and from the
            # last unit: wherever the label ends up, the links must lead to an element that exists
            prefix += 'ZqExA \\refstepcounter{zqex}\\label{zqex:1} ZqExB \\ref{zqex:1}\n\n'
            suffix += '\nZqExC \\ref{zqex:1} \\pageref{zqex:1}\n'
        if use_bib:
            suffix += '\n\\begin{thebibliography}{9}\\bibitem{zk1}%s BibA1z \\bibitem{zk2} BibA2z \\end{thebibliography}\n' % ('\\index{%s}' % r.choice(WORDS) if index_in_bib else '')
        if use_index:
            # \printindex, or the environment an included makeindex .ind file consists of (plasTeX builds its own entries either way)
            suffix += '\n\\printindex\n' if r.random() < 0.7 else '\n\\begin{theindex}\n\\item Zi1y, 1\n\\indexspace\n\\item Zi2y, 2\n\\end{theindex}\n'
        pre = '\\usepackage{makeidx}\\makeindex\n' if use_index else ''
        if natbib:
            pre += '\\usepackage[numbers]{natbib}\n'
        if handnum:
            pre += '\\newcounter{zqex}\n'
        src = docs.latex(d, extra_preamble=pre, body_prefix=prefix, body_suffix=suffix)
        exp, m = CM.numbers(d, 2)
        number_of = {l: n for k, n, l in exp if l}
        kind_of = {l: k for k, n, l in exp if l}
        setup_ = r.choice(c13.SETUPS)
        # a quarter of the documents is the second edition of a job: an earlier edition, with the same label names on other objects in
        # other files, was compiled in the same directory before (its job.paux is still there; it is not this run's business)
        earlier = None
        if labels and r.random() < 0.3:
            # (every old unit has sub-units of its own, so that tables of contents had entries below it)
            earlier = {'src': '\\documentclass{%s}\\begin{document}\n' % d['cls'] + '\n'.join('\\%s{Old%dz}\\label{%s} Old text %d\n\\%s{OldSub%dz} Old sub text\n\\%s{OldSubSub%dz} t' % (
                'chapter' if d['cls'] == 'book' else 'section', k, l, k, 'section' if d['cls'] == 'book' else 'subsection', k, 'subsection' if d['cls'] == 'book' else 'subsubsection', k)
                for k, l in enumerate(reversed(labels))) + '\n\\end{document}\n',
                       'level': r.choice([2, 2, -10])}
        yield {'earlier': earlier, 'src': src, 'framed': framed, 'number_of': number_of, 'kind_of': kind_of, 'truth': c13.truth(d), 'label_unit': label_units(d),
               'level': r.choice([-10, -1, 0, 1, 1, 2, 2, 3, 4]), 'toc_depth': r.choice([0, 1, 2, 3, 3, 4]), 'toc_non_files': r.random() < 0.4,
               'base_url': r.choice(['', '', 'http://example.org/doc', 'http://example.org/doc/']), 'renderer': setup_[0], 'theme': setup_[1],
               'index': use_index, 'bib': use_bib, 'template': 'index [$id, sect$num(4)]'}


def label_units(d):
    """label -> (index of the unit (document order, 0 = document) that contains the labelled object, is the label on that unit itself)"""
    out = {}
    idx = [0]

    def scan(blocks, u):
        def f(n):
            if n.get('label') and n.get('t') not in ('sec', 'ref'):
                out[n['label']] = [u, False]
            if n.get('t') == 'eqnarray':
                for row in n['rows']:
                    if row.get('label'):
                        out[row['label']] = [u, False]
        docs.walk(blocks, f)

    def sec(s):
        idx[0] += 1
        me = idx[0]
        if s.get('label'):
            out[s['label']] = [me, True]
        scan(s['c'], me)
        for sub in s['subs']:
            sec(sub)
    scan(d['c'], 0)
    for s in d['secs']:
        sec(s)
    return out


def internal(href):
    if href is None:
        return False
    h = href.strip()
    if not h:
        return True
    if re.match(r'^[a-zA-Z][a-zA-Z0-9+.-]*:', h) or h.startswith('//'):
        return False
    return True


def run(case, st):
    common.plastex_reset()
    ov = {('files', 'split-level'): case['level'], ('general', 'theme'): case['theme'], ('document', 'toc-depth'): case['toc_depth'],
          ('document', 'toc-non-files'): case['toc_non_files'], ('document', 'base-url'): case['base_url']}
    st.feature('settings', 'level=%s/toc=%d/%s' % (case['level'], case['toc_depth'], case['renderer'][:2] + case['theme'][:3]))
    try:
        if case.get('earlier'):
            st.counters['second_editions'] += 1
            pov = dict(ov)
            pov[('files', 'split-level')] = case['earlier']['level']
            out = R.render_again(case['earlier']['src'], pov, case['src'], case['renderer'], ov)
        else:
            out = R.render(case['src'], case['renderer'], ov)
    except common.CaseTimeout:
        raise
    except Exception as e:
        st.violation('render-raises-' + type(e).__name__, case, traceback.format_exc()[-700:] + case['src'][:500])
        return {'nontrivial': True}
    finally:
        common.plastex_reset()
    try:
        names = list(out.files.values())
        pages = R.read_output(out.outdir, also=names)
        parsed = {n: R.Page(t) for n, t in pages.items()}
        base = case['base_url'].rstrip('/')
        bad = []
        nlinks = 0
        graph = collections.defaultdict(set)
        for n, p in parsed.items():
            # ids unique within the file
            c = collections.Counter(p.ids)
            dup = [i for i, k in c.items() if k > 1]
            if dup:
                # <a name=x id=x> carries the same identifier twice on one element: not a duplicate
                real = []
                for i in dup:
                    elems = [1 for tag, d, stk in p.elements if d.get('id') == i or (tag == 'a' and d.get('name') == i)]
                    if len(elems) > 1:
                        real.append(i)
                if real:
                    bad.append(('duplicate-id', 'file %s: identifier(s) %r occur on more than one element' % (n, real[:4])))
            for link in p.links:
                href = link['href']
                if 'rel' in link and link['rel'] is not None:
                    rels = str(link['rel']).lower().split()
                    if not any(x in NAVRELS for x in rels):
                        continue
                if base and href and href.startswith(base):
                    href = href[len(base):].lstrip('/')
                if not internal(href):
                    continue
                nlinks += 1
                st.counters['hrefs_checked'] += 1
                f, _, frag = href.partition('#')
                target = f or n
                kind = link_kind(link)
                st.feature('link-kind', kind)
                if target not in parsed:
                    bad.append(('link-to-missing-file/' + kind, 'file %s: href %r names %r which was not produced (files: %s)' % (n, link['href'], target, sorted(parsed)[:8])))
                    continue
                graph[n].add(target)
                if frag and frag not in parsed[target].ids:
                    bad.append(('link-to-missing-anchor/' + kind, 'file %s: href %r: no element with id %r in %s' % (n, link['href'], frag, target)))
        # framed references: number and destination
        if case['framed'] and not bad:
            owner, nfiles = c13.partition(case['truth'], case['level'], False)
            found = {}
            for n, p in parsed.items():
                ev = p.events
                for i, (k, v) in enumerate(ev):
                    if k == 'text':
                        for m in re.finditer(r'RfA(\d+)z', v):
                            kk = int(m.group(1))
                            # the next event(s) up to RfB<k>z
                            seq = []
                            tail = v[m.end():]
                            if 'RfB%dz' % kk in tail:
                                found[kk] = (n, [], tail.split('RfB%dz' % kk)[0])
                                continue
                            txt = tail
                            for j in range(i + 1, min(i + 12, len(ev))):
                                if ev[j][0] == 'a':
                                    seq.append(ev[j][1])
                                elif 'RfB%dz' % kk in ev[j][1]:
                                    txt += ev[j][1].split('RfB%dz' % kk)[0]
                                    break
                                else:
                                    txt += ev[j][1]
                            found[kk] = (n, seq, txt)
            for kk, lab in enumerate(case['framed']):
                num = case['number_of'].get(lab)
                if kk not in found:
                    bad.append(('reference-lost', 'framed reference %d to %s not found in the output' % (kk, lab)))
                    continue
                n, seq, txt = found[kk]
                if num is None or num == 'part' or '?' in str(num):
                    continue
                st.counters['reference_links_checked'] += 1
                if len(seq) != 1:
                    bad.append(('reference-not-a-link', '\\ref{%s}: %d links between the frame markers (text %r)' % (lab, len(seq), txt)))
                    continue
                a = seq[0]
                if a['text'].strip() != num:
                    bad.append(('reference-shows-wrong-number', '\\ref{%s} shows %r, its target (%s) has number %r' % (lab, a['text'].strip(), case['kind_of'].get(lab), num)))
                    continue
                href = a['href']
                if base and href.startswith(base):
                    href = href[len(base):].lstrip('/')
                u, own = case['label_unit'][lab]
                tr = case['truth']
                file_idx = owner[u]
                if file_idx < len(names):
                    want_file = names[file_idx]
                    f, _, frag = href.partition('#')
                    is_file_unit = own and (u == 0 or tr['units'][u]['level'] <= case['level'])
                    if f != want_file:
                        bad.append(('reference-points-to-wrong-file', '\\ref{%s} -> %r, the target lives in %s' % (lab, a['href'], want_file)))
                    elif not is_file_unit and frag != lab:
                        bad.append(('reference-fragment', '\\ref{%s} -> %r, expected fragment %r' % (lab, a['href'], lab)))
        # reachability from the start page
        # the minimal themes print no table of contents / navigation at all: the clause does not apply to them
        if case['toc_depth'] >= 1 and case['theme'] == 'default' and names and not bad:
            start = names[0]
            seen = set([start])
            todo = [start]
            while todo:
                x = todo.pop()
                for y in graph.get(x, ()):
                    if y not in seen:
                        seen.add(y)
                        todo.append(y)
            unreachable = [n for n in names if n not in seen]
            if unreachable:
                bad.append(('file-not-reachable-from-start-page', 'files %r cannot be reached from %s by following links (toc-depth %d)' % (unreachable[:5], start, case['toc_depth'])))
        for kind, msg in bad[:3]:
            st.violation(kind, case, 'level=%s toc-depth=%d toc-non-files=%s base-url=%r %s/%s: %s' % (
                case['level'], case['toc_depth'], case['toc_non_files'], case['base_url'], case['renderer'], case['theme'], msg))
        return {'nontrivial': len(names) >= 2 and nlinks >= 3, 'sample': {'files': names[:5], 'links': nlinks, 'level': case['level']}}
    finally:
        out.cleanup()


def link_kind(link):
    a = link['attrs']
    cls = (a.get('class') or '')
    ctx = link['context']
    if 'rel' in link and link.get('rel'):
        return 'link-rel'
    if 'footnote' in cls:
        return 'footnote'
    if 'index' in cls:
        return 'index'
    if 'nav' in ctx or 'prev' in cls or 'next' in cls or 'up' in cls:
        return 'nav-or-toc'
    if 'cite' in cls or 'bib' in cls:
        return 'cite'
    return 'body'
