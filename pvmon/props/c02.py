"""C02 -- macro definitions expand exactly as TeX's substitution rules say.

Monitor: independent reference expander (pvmon.reftex.expand) run beside the
real parse of the same generated program; the whitespace-stripped visible text
must agree.  Wrappers on the anchored functions count how often each mechanism
(expandDef, NewCommand.invoke, Definition.invoke, Context.newdef/newcommand/let,
\\csname, \\expandafter) was exercised per case.
"""
import re, traceback
from .. import common
from ..instrument import wrap
from ..gen.programs import ProgGen
from ..reftex import expand as E

PROP = 'C02'
LEVEL = 'exploration'
RULE = ('programs of the generated macro language (NF-1..NF-8): 1-12 items per block (definitions by \\def/\\gdef with 0-9 parameters, '
        'delimited/undelimited/#{ patterns, leading literals, two-token delimiters; \\newcommand/\\renewcommand with optional default; '
        '\\let before/after redefinition; \\expandafter\\def\\csname; definer macros with ##; calls via name, \\csname and \\expandafter; '
        'calls nested in bodies and arguments) inside 0-3 levels of {} / \\begingroup.  Non-trivial = at least one macro with >= 1 parameter '
        'was called (Definition.invoke/NewCommand.invoke hook fired with arguments); distinct by program text.')
ASSUMPTIONS = ['reference expander pvmon/reftex/expand.py (TeXbook ch. 20)', 'normal forms NF-1..NF-8 of DESIGN.md',
               'a program the reference itself rejects is a generator defect: counted as harness error, never judged']
DECIDING_HOOKS = ['expandDef', 'Definition.invoke', 'NewCommand.invoke']


def budget(tier):
    return {'n': 12000 if tier == 'quick' else 160000, 'case_timeout': 20}


_st = None


def setup(st):
    global _st
    _st = st
    import plasTeX
    from plasTeX import Context as C
    from plasTeX.Base.TeX import Primitives as P
    wrap(plasTeX.NewCommand, 'invoke', stats=st)
    wrap(plasTeX.Definition, 'invoke', stats=st)
    wrap(C.Context, 'newdef', stats=st)
    wrap(C.Context, 'newcommand', stats=st)
    wrap(C.Context, 'let', stats=st)
    wrap(P.csname, 'invoke', stats=st, hook='csname.invoke')
    wrap(P.expandafter, 'invoke', stats=st, hook='expandafter.invoke')
    orig = plasTeX.expandDef

    def expandDef(definition, params):
        st.hooks['expandDef'] += 1
        if len(params) > 1:
            st.counters['expandDef_with_params'] += 1
        return orig(definition, params)
    expandDef.__pvmon_orig__ = orig
    plasTeX.expandDef = expandDef


def anchors():
    import plasTeX
    from plasTeX import Context as C, TeX as T
    from plasTeX.Base.TeX import Primitives as P
    return {'expandDef': plasTeX.expandDef, 'NewCommand.invoke': plasTeX.NewCommand.invoke, 'Definition.invoke': plasTeX.Definition.invoke,
            'DefCommand.invoke': P.DefCommand.invoke, 'let.invoke': P.let.invoke, 'csname.invoke': P.csname.invoke,
            'expandafter.invoke': P.expandafter.invoke, 'Context.newcommand': C.Context.newcommand, 'Context.newdef': C.Context.newdef,
            'Context.let': C.Context.let, 'TeX.readToken': T.TeX.readToken, 'TeX.readGrouping': T.TeX.readGrouping}


def cases(seed, tier, shard, nshards):
    n = budget(tier)['n']
    for i in common.sharded(n, shard, nshards):
        r = common.rng_for(seed, PROP, i)
        g = ProgGen(r, max_items=r.choice([6, 10, 14]))
        p = g.program()
        yield {'program': p, 'features': sorted(g.features)}


def real_text(program, in_document=False):
    from plasTeX.TeX import TeX
    common.plastex_reset()
    tex = TeX()
    # a third of the programs run as the body of a complete document (the definitions then live in the scope of the document
    # environment, as they do in practice), the others as a bare token stream
    tex.input(('\\documentclass{article}\\begin{document}%s\\end{document}' % program) if in_document else program)
    doc = tex.parse()
    return doc.textContent, doc


def strip(s):
    return re.sub(r'\s+', '', s)


def run(case, st):
    p = case['program']
    try:
        exp, it = E.run(p)
    except (E.OutOfModel, E.TeXError) as e:
        if 'unbraced-parameter-argument' in case.get('features', ()):
            # what an unbraced parameter stands for decides whether the call it is handed to is still well-formed (it may be empty,
            # or a macro that wants arguments of its own): a program TeX itself rejects is outside the quantifier
            st.outcomes['precondition_skip'] += 1
            st.counters['skip:unbraced-parameter-makes-program-ill-formed'] += 1
            return {}
        st.outcomes['harness_error'] += 1
        st.notes['reference-rejects-program: %r: %s' % (e, p[:300])] += 1
        return {}
    h0 = st.counters['expandDef_with_params']
    try:
        indoc = common.case_hash(case)[2] % 3 == 0
        st.feature('program-runs-as', 'document-body' if indoc else 'bare-token-stream')
        got, doc = real_text(p, indoc)
    except common.CaseTimeout:
        raise
    except Exception as e:
        st.violation(classify(p, case, 'raises-' + type(e).__name__), case, 'program %r raised %s' % (p, traceback.format_exc()[-700:]))
        return {'nontrivial': True}
    for f in case.get('features', []):
        st.feature('construct', f)
    if strip(got) != strip(exp):
        st.violation(classify(p, case, 'text'), case, 'program %r: expected text %r, plasTeX gave %r' % (p, strip(exp), strip(got)))
    depth = len(doc.context.contexts)
    if depth != 1:
        st.violation('context-depth-after-balanced-program', case, 'program %r leaves context depth %d' % (p, depth))
    return {'nontrivial': st.counters['expandDef_with_params'] > h0, 'sample': {'program': p, 'text': strip(exp)}}


def classify(p, case, symptom):
    """mechanism keys from features of the program text + symptom"""
    feats = set(case.get('features', []))
    if re.search(r'#\d#\{', p) or re.search(r'\\g?def\\zq\w+#\{', p):
        return 'def-hash-brace/' + symptom
    if 'two-token-delimiter' in feats:
        return 'two-token-delimiter/' + symptom
    return 'expansion/' + symptom
