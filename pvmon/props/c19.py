"""C19 -- ifthen tests evaluate as the boolean expression they spell.

Monitor: the generator builds an expression tree and evaluates it in Python
(ground truth by construction); then/else branches carry unique markers and
private counters (as C03); \\whiledo loops are judged on their iteration count.
A wrapper on ifthenelse.evaluate records the truth value the real code computed
for every test."""
import re, traceback
from .. import common
from ..instrument import wrap
from ..gen.boolexpr import BoolGen
from ..gen.conds import alpha

PROP = 'C19'
LEVEL = 'exploration'
RULE = ('documents (article + ifthen) with 1-5 \\ifthenelse tests whose expression tree has depth <= 4 over integer comparisons (literals, '
        '\\value{c}, macro numbers), \\lengthtest in mixed units (operands identical or >= 1pt apart), \\equal, \\isodd, \\isundefined, '
        '\\boolean; \\not/\\NOT in every operand position, \\and/\\or/\\AND/\\OR left to right, redundant \\( \\); plus 0-2 \\whiledo loops '
        'with 0-6 iterations.  Non-trivial = some test has at least one binary operator or a \\not; distinct by document text.')
ASSUMPTIONS = ['ground truth = Python evaluation of the generated tree (left-to-right and/or, \\not tightest)',
               '\\lengthtest operands are identical or >= 1pt apart']
DECIDING_HOOKS = ['ifthenelse.evaluate']


def budget(tier):
    return {'n': 3000 if tier == 'quick' else 50000, 'case_timeout': 30}


_vals = []


def setup(st):
    from plasTeX.Packages import ifthen

    def after(tok, res, exc, self, tex, test):
        _vals.append(None if exc is not None else bool(res.state))
    wrap(ifthen.ifthenelse, 'evaluate', after=after, stats=st, hook='ifthenelse.evaluate')


def anchors():
    from plasTeX.Packages import ifthen as I
    return {'ifthenelse.evaluate': I.ifthenelse.evaluate, 'ifthenelse.prec': I.ifthenelse.prec, 'ifthenelse.invoke': I.ifthenelse.invoke,
            'whiledo.invoke': I.whiledo.invoke, 'boolean.invoke': I.boolean.invoke, 'isodd.invoke': I.isodd.invoke, 'equal.invoke': I.equal.invoke,
            'isundefined.invoke': I.isundefined.invoke, 'lengthtest.invoke': I.lengthtest.invoke}


def gen_case(r):
    g = BoolGen(r)
    body = ''
    expect = {}
    values = []
    nb = 0
    for _ in range(r.randint(1, 5)):
        t, v = g.test(r.choice([1, 2, 3, 4]))
        a, b = 'zk' + alpha(nb), 'zk' + alpha(nb + 1)
        nb += 2
        shape = r.choice(['both', 'both', 'both', 'then-empty', 'else-empty', 'then-blank'])
        g.features.add('branches:' + shape)
        bt = '' if shape == 'then-empty' else ' ' if shape == 'then-blank' else 'W%sx\\stepcounter{%s}' % (a[2:].upper(), a)
        be = '' if shape == 'else-empty' else 'W%sx\\stepcounter{%s}' % (b[2:].upper(), b)
        body += '\\ifthenelse{%s}{%s}{%s} ' % (t, bt, be)
        if r.random() < 0.3:
            body += g.reassign()
        if bt.strip():
            expect[a] = 1 if v else 0
        if be:
            expect[b] = 0 if v else 1
        values.append(bool(v))
    if r.random() < 0.2:
        # the same \\isundefined atom while a local definition is live and after its group has closed (and for a global one)
        g.features.add('isundefined-across-group')
        glob = r.random() < 0.3
        names = ['zk' + alpha(nb + q) for q in range(4)]
        nb += 4
        inner = '\\ifthenelse{\\isundefined{\\zqloc}}{W%sx\\stepcounter{%s}}{W%sx\\stepcounter{%s}}' % (names[0][2:].upper(), names[0], names[1][2:].upper(), names[1])
        outer = '\\ifthenelse{\\not\\isundefined{\\zqloc}}{W%sx\\stepcounter{%s}}{W%sx\\stepcounter{%s}}' % (names[2][2:].upper(), names[2], names[3][2:].upper(), names[3])
        body += '{\\%s\\zqloc{1}%s}%s ' % ('gdef' if glob else 'def', inner, outer)
        expect[names[0]], expect[names[1]] = 0, 1
        expect[names[2]], expect[names[3]] = (1, 0) if glob else (0, 1)
    loops = []
    for j in range(r.choice([0, 0, 1, 2])):
        c = 'zl' + alpha(j)
        start = r.choice([0, 1, 3, 5])
        iters = r.randint(0, 6)
        lim = start + iters if r.random() < 0.85 else start - r.randint(0, 3)
        rel_txt = '\\value{%s}<%d' % (c, lim)
        if r.random() < 0.3:
            rel_txt = '%d>\\value{%s}' % (lim, c)
        if r.random() < 0.25:
            rel_txt = '\\not \\(' + ('\\value{%s}>%d \\or \\value{%s}=%d' % (c, lim, c, lim)) + '\\)'
            g.features.add('loop-with-not')
        if r.random() < 0.5:
            # the loop test also holds an atom of the other kinds (length tests, \equal, \boolean, \isodd ...) that does not change
            # its value: `.. \and <true atom>` or `.. \or <false atom>`; it is evaluated anew on every pass
            a_txt, a_val = g.atom()
            rel_txt = ('\\( %s \\) \\and %s' if a_val else '\\( %s \\) \\or %s') % (rel_txt, a_txt)
            g.features.add('loop-test-with-other-atom')
        body += '\\setcounter{%s}{%d}\\whiledo{%s}{L%sy\\stepcounter{%s}} ' % (c, start, rel_txt, alpha(j).upper(), c)
        loops.append([c, 'L%sy' % alpha(j).upper(), max(0, lim - start), max(start, lim) if lim > start else start])
    pre = g.preamble()
    for j in range(nb):
        pre += '\\newcounter{zk%s}' % alpha(j)
    for l in loops:
        pre += '\\newcounter{%s}' % l[0]
    doc = '\\documentclass{article}\\usepackage{ifthen}\\begin{document}' + pre + '\n' + body + '\\end{document}'
    return {'doc': doc, 'expect': expect, 'values': values, 'loops': loops, 'features': sorted(g.features), 'adj': sorted(g.adj)}


def cases(seed, tier, shard, nshards):
    for i in common.sharded(budget(tier)['n'], shard, nshards):
        yield gen_case(common.rng_for(seed, PROP, i))


def run(case, st):
    from plasTeX.TeX import TeX
    del _vals[:]
    common.plastex_reset()
    src = case['doc']
    try:
        tex = TeX()
        tex.input(src)
        doc = tex.parse()
        text = doc.textContent
    except common.CaseTimeout:
        raise
    except Exception as e:
        st.violation(classify(case, 'raises-' + type(e).__name__), case, 'document %r raised %s' % (src, traceback.format_exc()[-600:]))
        return {'nontrivial': True}
    finally:
        common.plastex_reset()
    for f in case['features']:
        st.feature('construct', f)
    for a in case['adj']:
        st.feature('adjacency', a)
    bad = []
    for name, want in case['expect'].items():
        have = doc.context.counters[name].value
        marker = 'W%sx' % name[2:].upper()
        cnt = text.count(marker)
        if have != want or cnt != want:
            bad.append('branch %s: processed %d time(s) (marker count %d), expression evaluates so that it must be %d' % (name, have, cnt, want))
    for c, marker, iters, final in case['loops']:
        cnt = text.count(marker)
        if cnt != iters:
            bad.append('loop on %s: body ran %d time(s), test stays true %d time(s)' % (c, cnt, iters))
    if bad:
        st.violation(classify(case, 'value'), case, 'document %r: %s' % (src, '; '.join(bad[:4])))
    nontrivial = any(x for x in case['adj'])
    return {'nontrivial': nontrivial, 'sample': {'doc': src[src.index('\n') + 1:][:400], 'values': case['values']}}


def classify(case, symptom):
    adj = case['adj']
    if any(a in ('and>not', 'or>not') for a in adj):
        return 'not-after-binary-operator/' + symptom
    if 'not>not' in adj:
        return 'double-not/' + symptom
    return 'ifthen/' + symptom
