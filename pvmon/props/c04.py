"""C04 -- grouping restores every local change and leaves the context stack balanced.

Two monitors.

(a) API histories against an executable frame-stack model.  Operations are
issued directly on a fresh plasTeX.Context: push(), push(obj), pop(), pop(obj),
addLocal, addGlobal, let (macro and character), catcode, setVerbatimCatcodes.
After every operation: depth, parent chain, top, lookup of every key ever
defined (identity of the class object), whichCode of every character ever
assigned, get_let of every let name.  Exhaustive over all valid sequences up to
a bound on a small alphabet, random beyond.
Preconditions (well-bracketed use): pop() only when the innermost frame is an
anonymous one (or only the global frame is left: no-op); pop(obj) only when a
frame pushed with the matching begin object is open (frames above it are
discarded with it, as plasTeX documents for \\end{env}).

(b) Balanced TeX-level scoping programs (pvmon.gen.scopes) judged by the
reference expander's save stack; plus final depth and a push/pop event log
replayed against a shadow stack (never below the global frame, pushes == pops).
"""
import re, traceback
from .. import common
from ..instrument import wrap
from ..gen.scopes import ScopeGen
from ..reftex import expand as E
from ..reftex import lexer as L

PROP = 'C04'
LEVEL = 'exploration'
RULE = ('(a) operation sequences on the Context API over the alphabet {push(), pop(), push(env), pop(end env), addLocal(ka), addGlobal(ka), '
        'let(kb:=ka), let(kc:=char), catcode(@,11), catcode(%,12), setVerbatimCatcodes}: every valid sequence up to length L (quick 5, thorough 6) '
        'and random sequences up to length 60 over 4 keys, 6 characters, 3 environment types; (b) balanced scoping programs: {} / \\begingroup / '
        'center / quote / itemize / $ $ / \\( \\) / tabular cells and rows / \\textbf \\mbox \\emph arguments nested to depth 4 with \\def \\gdef '
        '\\let \\makeatletter \\catcode \\newif setters \\stepcounter and probes after every closed scope.  Non-trivial = (a) the sequence contains '
        'a pop after a definition or catcode change, (b) the program closes >= 2 scopes; distinct by content hash.')
ASSUMPTIONS = ['frame-stack model in pvmon/props/c04.py', 'reference expander for TeX-level programs',
               'a global definition replaces local ones in open groups (TeX); \\newif switches and counters are global (statement)']
DECIDING_HOOKS = ['Context.push', 'Context.pop', 'Context.addLocal', 'Context.addGlobal', 'Context.catcode', 'Context.let']

OPS = ['push', 'pop', 'pushenv', 'popenv', 'local', 'global', 'letm', 'letc', 'cat@', 'cat%', 'verb']


def budget(tier):
    return {'exh_len': 5 if tier == 'quick' else 6, 'n_api': 3000 if tier == 'quick' else 100000,
            'n_tex': 2500 if tier == 'quick' else 50000, 'case_timeout': 30}


_events = []


def setup(st):
    from plasTeX.Context import Context

    def bpush(self, context=None):
        return len(self.contexts)

    def apush(tok, res, exc, self, context=None):
        _events.append(('push', tok, len(self.contexts), None if context is None else type(context).__name__))

    def apop(tok, res, exc, self, obj=None):
        _events.append(('pop', tok, len(self.contexts), None if obj is None else type(obj).__name__))
    wrap(Context, 'push', before=bpush, after=apush, stats=st)
    wrap(Context, 'pop', before=bpush, after=apop, stats=st)
    for m in ('addLocal', 'addGlobal', 'catcode', 'let', 'setVerbatimCatcodes'):
        wrap(Context, m, stats=st)


def anchors():
    from plasTeX.Context import Context, ContextItem
    import plasTeX
    from plasTeX.Base.TeX import Text
    return {'Context.push': Context.push, 'Context.pop': Context.pop, 'Context.mapMethods': Context.mapMethods, 'Context.createContext': Context.createContext,
            'ContextItem.__getitem__': ContextItem.__getitem__, 'ContextItem.has_key': ContextItem.has_key, 'Context.addGlobal': Context.addGlobal,
            'Context.addLocal': Context.addLocal, 'Context.let': Context.let, 'Context.get_let': Context.get_let, 'Context.catcode': Context.catcode,
            'Context.setVerbatimCatcodes': Context.setVerbatimCatcodes, 'bgroup.invoke': Text.bgroup.invoke, 'egroup.invoke': Text.egroup.invoke,
            'Environment.invoke': plasTeX.Environment.invoke}


# ---------------------------------------------------------------------------
# (a) model

class Frame(object):
    def __init__(self, kind, cats):
        self.kind = kind       # None (anonymous) or environment type index
        self.locals = {}
        self.lets = {}
        self.cats = dict(cats)
        self.verb = False


class CModel(object):
    def __init__(self):
        t = L.default_table()
        self.frames = [Frame('global', t)]
        self.frames[0].verbflag = False
        self.nval = 0

    def top(self):
        return self.frames[-1]

    def lookup(self, k):
        for f in reversed(self.frames):
            if k in f.locals:
                return f.locals[k]
        return None

    def get_let(self, k):
        for f in reversed(self.frames):
            if k in f.lets:
                return f.lets[k]
        return None

    def cat(self, ch):
        f = self.top()
        return f.cats.get(ch, 12)

    def valid(self, op):
        name = op[0]
        if name == 'pop':
            # (an anonymous group may also end while an environment opened inside it is still on top: groups interleaved with
            # environments; the group end then sweeps the environment's frame away with its own)
            return True
        if name == 'popenv':
            return any(f.kind == op[1] for f in self.frames[1:])
        if name == 'letm':
            return self.lookup(op[2]) is not None
        return True

    def apply(self, op):
        name = op[0]
        if name == 'push':
            self.frames.append(Frame(None, self.top().cats))
        elif name == 'pushenv':
            cats = self.top().cats
            if op[1] == 3:
                # a document-level environment starts from the outermost frame: the groups open at that point are gone, with their
                # definitions and aliases (the category codes in force stay in force, as they do in TeX)
                del self.frames[1:]
            self.frames.append(Frame(op[1], cats))
            if op[1] in ENV_LOCAL:
                self.top().locals[ENV_LOCAL[op[1]]] = -(op[1] + 1)      # the macro the environment brings (value numbers below zero)
        elif name == 'pop':
            while len(self.frames) > 1:
                f = self.frames.pop()
                if f.kind is None:
                    break
        elif name == 'popenv':
            while len(self.frames) > 1:
                f = self.frames.pop()
                if f.kind == op[1]:
                    break
        elif name == 'local':
            self.nval += 1
            self.top().locals[op[1]] = self.nval
        elif name == 'global':
            self.nval += 1
            for f in self.frames[1:]:
                f.locals.pop(op[1], None)
            self.frames[0].locals[op[1]] = self.nval
        elif name == 'letm':
            self.top().locals[op[1]] = self.lookup(op[2])
        elif name == 'letc':
            self.top().lets[op[1]] = op[2]
        elif name == 'cat':
            ch, code = op[1], op[2]
            c = self.top().cats
            if code == 12:
                c.pop(ch, None)
            else:
                c[ch] = code
        elif name == 'verb':
            import string
            self.top().cats = {c: 11 for c in string.ascii_letters}


SMALL = [('push',), ('pop',), ('pushenv', 0), ('popenv', 0), ('local', 'ka'), ('global', 'ka'), ('letm', 'kb', 'ka'), ('letc', 'kc', 'x'),
         ('cat', '@', 11), ('cat', '%', 12), ('verb',)]
KEYS = ['ka', 'kb', 'kc', 'kd']
CHARS = ['@', '%', '\\', ' ', 'a', '\n']


def exhaustive(L_, shard, nshards):
    first = [op for op in SMALL if CModel().valid(op)]
    for ti, f in enumerate(first):
        if ti % nshards != shard:
            continue
        stack = [[f]]
        while stack:
            seq = stack.pop()
            if len(seq) == L_:
                yield seq
                continue
            m = CModel()
            for op in seq:
                m.apply(op)
            for op in SMALL:
                if m.valid(op):
                    stack.append(seq + [op])


def random_ops(r, maxlen):
    m = CModel()
    seq = []
    for _ in range(r.randint(3, maxlen)):
        k = r.random()
        if k < 0.16:
            op = ('push',)
        elif k < 0.28:
            op = ('pop',)
        elif k < 0.36:
            op = ('pushenv', r.choice([0, 1, 2, 0, 1, 2, 3]))
        elif k < 0.44:
            op = ('popenv', r.choice([0, 1, 2, 0, 1, 2, 3]))
        elif k < 0.58:
            op = ('local', r.choice(KEYS))
        elif k < 0.66:
            op = ('global', r.choice(KEYS))
        elif k < 0.74:
            op = ('letm', r.choice(KEYS), r.choice(KEYS))
        elif k < 0.8:
            op = ('letc', r.choice(KEYS), r.choice('xyz'))
        elif k < 0.96:
            ch = r.choice(CHARS)
            code = r.choice([0, 1, 2, 6, 10, 11, 12, 13, 14, 9])
            if ch == '\n' and code == 12:
                code = 5
            op = ('cat', ch, code)
        else:
            op = ('verb',)
        if m.valid(op):
            m.apply(op)
            seq.append(op)
    return seq


def cases(seed, tier, shard, nshards):
    b = budget(tier)
    for i in common.sharded(len(ALIAS_PROBES), shard, nshards):
        yield {'kind': 'alias-probe', 'program': ALIAS_PROBES[i][0], 'recorded': ALIAS_PROBES[i][1]}
    for seq in exhaustive(b['exh_len'], shard, nshards):
        yield {'kind': 'api', 'ops': seq, 'exh': 1}
    for i in common.sharded(b['n_api'], shard, nshards):
        r = common.rng_for(seed, PROP, i, 'api')
        yield {'kind': 'api', 'ops': random_ops(r, r.choice([10, 25, 60]))}
    for i in common.sharded(b['n_tex'], shard, nshards):
        r = common.rng_for(seed, PROP, i, 'tex')
        g = ScopeGen(r, maxdepth=r.choice([2, 3, 4]))
        pre, body = g.program()
        yield {'kind': 'tex', 'pre': pre, 'body': body, 'features': sorted(g.features), 'scopes': g.nscopes, 'kinds': sorted(g.kinds)}


# ---------------------------------------------------------------------------

_env_classes = None


ENV_LOCAL = {0: 'ka', 1: 'kb'}


def env_classes():
    global _env_classes
    if _env_classes is None:
        import plasTeX
        # two of the three environment classes bring a local macro of their own (as lists bring \item and tables \\): its name is one
        # of the names the sequences also define themselves
        _env_classes = [type('zqenv%d' % i, (plasTeX.Environment,), ({ENV_LOCAL[i]: type(ENV_LOCAL[i], (plasTeX.Command,), {})} if i in ENV_LOCAL else {}))
                        for i in range(3)]
        # a fourth class at document level: opening it drops every group that is open at that point (Context.push)
        _env_classes.append(type('zqenv3', (plasTeX.Environment,), {'level': plasTeX.Environment.DOCUMENT_LEVEL}))
    return _env_classes


# Known finding `character-alias-substituted-when-tokenized`: \let\a=<character> is kept in a table of its own that the
# tokenizer consults when it forms the token \a, so (i) a later \def\a / \let\a cannot name \a any more, (ii) an alias made
# inside an argument that was already read does not reach the rest of that argument.  The generated programs stay outside this
# zone (pvmon/gen/scopes.py: alias names are not otherwise defined, no \let of a character inside a command argument); these
# fixed programs pin the defect down: (program, text plasTeX gives on the pinned tree).
ALIAS_PROBES = [
    ['\\def\\zqa{V}\\let\\zqa=u\\def\\zqa{X}\\zqa ', 'u'],
    ['\\let\\zqa=u{\\def\\zqa{X}\\zqa }\\zqa ', 'uu'],
    ['\\def\\zqa{V}\\def\\zqc{W}\\let\\zqc=v\\let\\zqc=\\zqa [\\zqc ]', '[v]'],
    ['\\def\\zqa{V}\\emph{\\global\\let\\zqa=u\\emph{\\textbf{\\def\\zqa{X}\\zqa }\\zqa }\\zqa }\\zqa ', 'XVVu'],
    ['\\begin{center}\\global\\let\\zqla=u {\\let\\zqla=v \\zqla}\\zqla\\end{center}[\\zqla]', 'uu[u]'],
]


def run_alias_probe(case, st):
    from plasTeX.TeX import TeX
    p, recorded = case['program'], case['recorded']
    want = strip(E.run(p)[0])
    common.plastex_reset()
    try:
        tex = TeX()
        tex.input(p)
        doc = tex.parse()
        got = strip(doc.textContent)
        depth = len(doc.context.contexts)
    except common.CaseTimeout:
        raise
    except Exception as e:
        st.violation('character-alias/raises-' + type(e).__name__, case, 'program %r raised %s' % (p, traceback.format_exc()[-400:]))
        return {'nontrivial': True}
    finally:
        common.plastex_reset()
    st.counters['alias_probes'] += 1
    if depth != 1:
        st.violation('character-alias/context-depth', case, 'program %r leaves the context stack at depth %d' % (p, depth))
    if got == want:
        st.notes['known finding character-alias-substituted-when-tokenized does not reproduce on %r' % p] += 1
    elif got == recorded:
        st.violation('character-alias-substituted-when-tokenized', case, 'program %r: TeX gives %r, plasTeX gives %r' % (p, want, got))
    else:
        st.violation('character-alias/other-output', case, 'program %r: TeX gives %r, the recorded defective output is %r, plasTeX gives %r' % (p, want, recorded, got))
    return {'nontrivial': True, 'sample': {'program': p}}


def run(case, st):
    if case['kind'] == 'api':
        return run_api(case, st)
    if case['kind'] == 'alias-probe':
        return run_alias_probe(case, st)
    return run_tex(case, st)


def run_api(case, st):
    import plasTeX
    from plasTeX.Context import Context
    from plasTeX.Tokenizer import EscapeSequence, Other
    ctx = Context(load=False)
    m = CModel()
    vals = {}          # model value number -> class object
    keys_seen = set()
    chars_seen = set(['@', '%', 'a', ' ', '\\', '\n', '{'])
    lets_seen = set()
    if case.get('exh'):
        st.counters['exhaustive_maximal_sequences'] += 1
    interesting = False
    defined_or_cat = False
    for step, op in enumerate(case['ops']):
        op = tuple(op)
        name = op[0]
        try:
            if name == 'push':
                ctx.push()
            elif name == 'pushenv':
                o = env_classes()[op[1]]()
                o.macroMode = o.MODE_BEGIN
                ctx.push(o)
                if op[1] in ENV_LOCAL:
                    vals[-(op[1] + 1)] = getattr(env_classes()[op[1]], ENV_LOCAL[op[1]])
                    keys_seen.add(ENV_LOCAL[op[1]])
            elif name == 'pop':
                ctx.pop()
                interesting = interesting or defined_or_cat
            elif name == 'popenv':
                o = env_classes()[op[1]]()
                o.macroMode = o.MODE_END
                ctx.pop(o)
                interesting = interesting or defined_or_cat
            elif name in ('local', 'global'):
                cls = type(op[1], (plasTeX.Command,), {})
                vals[m.nval + 1] = cls
                (ctx.addLocal if name == 'local' else ctx.addGlobal)(op[1], cls)
                keys_seen.add(op[1])
                defined_or_cat = True
            elif name == 'letm':
                ctx.let(EscapeSequence(op[1]), EscapeSequence(op[2]))
                keys_seen.add(op[1])
                defined_or_cat = True
            elif name == 'letc':
                tok = Other(op[2])
                ctx.let(EscapeSequence(op[1]), tok)
                lets_seen.add(op[1])
            elif name == 'cat':
                ctx.catcode(op[1], op[2])
                chars_seen.add(op[1])
                defined_or_cat = True
            elif name == 'verb':
                ctx.setVerbatimCatcodes()
                defined_or_cat = True
                # the characters whose category the verbatim table changes are watched from here on (also across later pushes and pops)
                chars_seen.update('\\{%$ ')
        except common.CaseTimeout:
            raise
        except Exception as e:
            st.violation('api/%s/raises-%s' % (name, type(e).__name__), case, 'step %d %r: %s' % (step, op, traceback.format_exc()[-500:]))
            return {'nontrivial': True}
        m.apply(op)
        st.feature('api-op', name)
        st.feature('depth', len(m.frames))
        # ---- compare ----------------------------------------------------
        bad = None
        if len(ctx.contexts) != len(m.frames) or ctx.depth != len(ctx.contexts):
            bad = ('depth', 'depth %d (Context.depth %d), model %d' % (len(ctx.contexts), ctx.depth, len(m.frames)))
        elif ctx.top is not ctx.contexts[-1]:
            bad = ('top', 'Context.top is not the innermost frame')
        else:
            for i in range(1, len(ctx.contexts)):
                if ctx.contexts[i].parent is not ctx.contexts[i - 1]:
                    bad = ('parent-chain', 'frame %d does not name frame %d as parent' % (i, i - 1))
                    break
        if bad is None:
            for k in keys_seen:
                want = m.lookup(k)
                has = k in ctx
                if (want is not None) != bool(has):
                    bad = ('lookup', 'key %s: defined=%s, model %s' % (k, bool(has), want is not None))
                    break
                if want is not None and ctx[k] is not vals[want]:
                    bad = ('lookup', 'key %s resolves to another definition than the innermost live one (model value #%d)' % (k, want))
                    break
        if bad is None:
            for ch in chars_seen:
                got = ctx.whichCode(ch)
                if got != m.cat(ch):
                    bad = ('catcode', 'whichCode(%r)=%d, model %d' % (ch, got, m.cat(ch)))
                    break
        if bad is None:
            for k in lets_seen:
                got = ctx.get_let(EscapeSequence(k))
                want = m.get_let(k)
                if want is None:
                    if not isinstance(got, EscapeSequence) or str(got) != k:
                        bad = ('let', 'get_let(%s) = %r, model: no alias in force' % (k, got))
                        break
                elif str(got) != want or isinstance(got, EscapeSequence):
                    bad = ('let', 'get_let(%s) = %r, model %r' % (k, got, want))
                    break
        if bad:
            st.violation('api/%s-after-%s' % (bad[0], name), case, 'step %d %r: %s' % (step, op, bad[1]))
            return {'nontrivial': True}
    return {'nontrivial': interesting, 'sample': {'ops': case['ops'][:8]}}


def strip(s):
    return re.sub(r'\s+', '', s)


def text_with_margins(node):
    """textContent, with the two arguments of a \\marginpar (kept as attributes, not as children) at the place where it stands"""
    if node.nodeType == node.TEXT_NODE:
        return str(node)
    if getattr(node, 'str', None) is not None:
        return node.str
    out = []
    if node.nodeName == 'marginpar':
        for k in ('left', 'right'):
            v = node.attributes.get(k)
            if v is not None:
                out.append(text_with_margins(v))
    for c in node.childNodes:
        out.append(text_with_margins(c))
    return ''.join(out)


def run_tex(case, st):
    from plasTeX.TeX import TeX
    body = case['pre'] + case['body']
    try:
        exp, it = E.run(body)
    except (E.OutOfModel, E.TeXError) as e:
        st.outcomes['harness_error'] += 1
        st.notes['reference-rejects-program: %r: %s' % (e, body[:300])] += 1
        return {}
    src = '\\documentclass{article}\\begin{document}' + body + '\\end{document}'
    common.plastex_reset()
    del _events[:]
    try:
        tex = TeX()
        tex.input(src)
        doc = tex.parse()
        got = text_with_margins(doc) if 'marginpar' in case['kinds'] else doc.textContent
    except common.CaseTimeout:
        raise
    except Exception as e:
        st.violation('tex/raises-' + type(e).__name__, case, 'program %r raised %s' % (body, traceback.format_exc()[-600:]))
        return {'nontrivial': True}
    finally:
        common.plastex_reset()
    for f in case['features']:
        st.feature('tex-construct', f)
    for k in case['kinds']:
        st.feature('scope-kind', k)
    if strip(got) != strip(exp):
        ge, gg = strip(exp), strip(got)
        k = 0
        while k < min(len(ge), len(gg)) and ge[k] == gg[k]:
            k += 1
        st.violation(classify_tex(case, ge, gg, k), case, 'program %r: text differs at %d: expected ...%r, got ...%r' % (body, k, ge[max(0, k - 30):k + 40], gg[max(0, k - 30):k + 40]))
    depth = len(doc.context.contexts)
    if depth != 1:
        st.violation('tex/depth-after-balanced-input', case, 'program %r leaves the context stack at depth %d' % (body, depth))
    # offline check of the push/pop log against a shadow stack
    d = None
    for ev in _events:
        kind, before, after, who = ev
        st.feature('pusher', '%s:%s' % (kind, who))
        if kind == 'pop' and after < 1:
            st.violation('tex/pop-below-global', case, 'pop event leaves depth %d' % after)
        st.feature('depth', after)
    st.counters['push_pop_events'] += len(_events)
    return {'nontrivial': case['scopes'] >= 2, 'sample': {'body': case['body'][:300], 'text': strip(exp)[:120]}}


def classify_tex(case, exp, got, k):
    feats = case['features']
    if 'global-def' in feats or 'global-let' in feats:
        return 'tex/global-prefix/text-differs'
    return 'tex/text-differs'
