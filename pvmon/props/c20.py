"""C20 -- cross-document label data survives a round trip and never blocks processing.

Monitors.
(1) round trip through a real render: a generated document with labels is
    rendered (HTML5 / XHTML), Renderer.render saves job.paux through
    Context.persist; in a fresh Context, restore must give the same label set
    with the saved number / title / target for each, only under the renderer that
    wrote them; a second document's \\ref to those labels must resolve to the
    restored objects.
(2) fault enumeration: for label files written by the real Context.persist:
    EVERY truncation point, EVERY single-bit flip, random multi-bit flips, empty
    file, non-dict pickles, non-dict sections, foreign-renderer-only files; the
    sequence restore -> persist -> load -> restore must let no exception escape,
    leave labels a subset of the saved ones (truncations / structural
    corruptions), and produce a complete loadable file again.
(3) random save/corrupt/restore histories across two renderers against a model."""
import json
import os, pickle, re, tempfile, traceback, io
from .. import common
from ..instrument import wrap
from ..gen import docs

PROP = 'C20'
LEVEL = 'fault_enumeration'
RULE = ('label sets of 1-8 labels (numbers, titles with markup and non-ASCII, urls) saved by the real Context.persist: for each file every truncation '
        'F[:n] (n = 0..len F), every single-bit flip (8 x len F), 200 random 2-8-bit flips, and the structural corruptions {empty, pickle of a list, '
        'of a string, dict with a list/str/None section, dict with only a foreign renderer, pickle with trailing garbage}; each followed by restore -> '
        'persist -> pickle.load -> restore.  Plus rendered round trips under HTML5 and XHTML with cross-document \\ref resolution, and random '
        'save/corrupt/restore histories of length <= 6 over two renderers.  A case = one label file x one block of its fault points (or one round '
        'trip / one history); non-trivial = the block holds >= 50 fault points or the round trip has >= 2 labels; distinct by content hash.')
ASSUMPTIONS = ['bit flips inside a stored value may change that value without making the file unloadable (pickle carries no checksum): for bit-flip '
               'trials only "no exception, next save complete and loadable" is judged, not the restored values',
               'the pickle format is the one produced by the running interpreter']
DECIDING_HOOKS = ['Context.persist', 'Context.restore']
DECIDING_COUNTERS = {'fault_points': 1000, 'second_document_shared_labels': 5, 'cross_document_refs': 5, 'compiled_pairs': 5, 'second_renderer_runs': 3}


def budget(tier):
    q = tier == 'quick'
    return {'n_sets': 10 if q else 300, 'n_round': 12 if q else 200, 'n_seq': 300 if q else 6000, 'n_compile': 16 if q else 300, 'block': 400, 'case_timeout': 300}


def setup(st):
    # a bit flip in a length field makes pickle try to allocate gigabytes before it notices the
    # truncation; cap the address space so that such a load fails fast (MemoryError) instead of
    # thrashing 16 workers
    try:
        import resource
        resource.setrlimit(resource.RLIMIT_AS, (3 << 30, 3 << 30))
    except Exception:
        pass
    from plasTeX.Context import Context
    wrap(Context, 'persist', stats=st)
    wrap(Context, 'restore', stats=st)
    import plasTeX
    wrap(plasTeX.Macro, 'persist', stats=st, hook='Macro.persist')
    wrap(plasTeX.Macro, 'restore', stats=st, hook='Macro.restore')


def anchors():
    from plasTeX.Context import Context
    import plasTeX
    return {'Context.persist': Context.persist, 'Context.restore': Context.restore, 'Macro.persist': plasTeX.Macro.persist, 'Macro.restore': plasTeX.Macro.restore}


TITLES = ['Intro', 'Results & more', 'A <b>bold</b> title', 'Übersicht', '', 'x' * 40, 'Wq12x Wq13x', '\\(a^2\\)',
          ' Getting started ', 'two  blanks', 'line\nbreak ', '\tTab']      # (rendered titles come with the blanks and line breaks of their templates)


def gen_labels(r):
    labs = {}
    for i in range(r.randint(1, 8)):
        name = r.choice(['sec', 'eq', 'fig', 'thm']) + ':' + r.choice('abxl') + str(i)
        d = {'id': name, 'captionName': r.choice(['', 'section', 'Figure'])}
        if r.random() < 0.8:
            d['ref'] = r.choice(['1', '2.3', 'A.1', '10', 'iv'])
        if r.random() < 0.6:
            d['title'] = r.choice(TITLES)
        d['url'] = r.choice(['index.html', 'sec-a.html', 'sect0002.html']) + (('#' + name) if r.random() < 0.6 else '')
        labs[name] = d
    return labs


def cases(seed, tier, shard, nshards):
    b = budget(tier)
    k = 0
    for i in range(b['n_sets']):
        r = common.rng_for(seed, PROP, i, 'set')
        labs = gen_labels(r)
        rt = r.choice(['HTML5', 'XHTML'])
        # the number of fault points depends on the file length, which only the worker knows: blocks are
        # addressed by index and empty blocks are skipped there
        for blk in range(40):
            if k % nshards == shard:
                yield {'kind': 'faults', 'labels': labs, 'rtype': rt, 'block': blk, 'seed': '%s:%d' % (seed, i)}
            k += 1
    for i in common.sharded(b['n_round'], shard, nshards):
        r = common.rng_for(seed, PROP, i, 'round')
        d = docs.gen(r, labels=True, refs=False, verbatim=False, tables=False, depth=2, maxsec=5, counters=False, wide_labels=(0.5 if i % 2 else 0))
        yield {'kind': 'round', 'src': docs.latex(d), 'labels': d['labels'], 'renderer': r.choice(['HTML5', 'XHTML'])}
    for i in common.sharded(b['n_compile'], shard, nshards):
        r = common.rng_for(seed, PROP, i, 'compile')
        # two documents compiled one after the other in one directory by plasTeX.Compile.run; job names that contain each other
        prov, cons = r.choice([['manual', 'guide'], ['userguide', 'guide'], ['aa', 'a'], ['a', 'aa'], ['part1', 'mypart1'], ['x.y', 'y'], ['doc', 'doc2']])
        n = r.randint(1, 4)
        labs = ['%s:%s%d' % (r.choice(['sec', 'ch']), r.choice('abx'), k) for k in range(n)]
        yield {'kind': 'compile', 'provider': prov, 'consumer': cons, 'labels': labs, 'renderer': r.choice(['HTML5', 'XHTML', 'Text', 'ManPage']), 'shared': r.random() < 0.3}
    for i in common.sharded(b['n_seq'], shard, nshards):
        r = common.rng_for(seed, PROP, i, 'seq')
        ops = []
        for _ in range(r.randint(2, 6)):
            q = r.random()
            if q < 0.4:
                ops.append(['save', r.choice(['HTML5', 'XHTML']), r.randint(0, 2)])
            elif q < 0.65:
                ops.append(['corrupt', r.choice(['truncate', 'flip', 'empty', 'list', 'badsection', 'delete']), r.randint(0, 10 ** 6)])
            else:
                ops.append(['restore', r.choice(['HTML5', 'XHTML'])])
        yield {'kind': 'seq', 'sets': [gen_labels(r) for _ in range(3)], 'ops': ops}


# ---------------------------------------------------------------------------
_ctx = None
_dir = None


def workdir():
    global _dir
    if _dir is None:
        _dir = tempfile.mkdtemp(prefix='c20-', dir=os.environ.get('PVMON_TMP') or None)
    return _dir


def teardown(st):
    import shutil
    if _dir:
        shutil.rmtree(_dir, ignore_errors=True)


def fresh_ctx():
    from plasTeX.Context import Context
    return Context(load=True)


def nodes_for(ctx, labs):
    out = {}
    for name, d in labs.items():
        n = ctx[d.get('macroName', 'Macro')]()
        for k, v in d.items():
            if k == 'macroName':
                continue
            setattr(n, k, v) if k != 'url' else n.__dict__.__setitem__('url', v)
        out[name] = n
    return out


def saved_view(labs):
    """what Macro.persist stores for these nodes"""
    out = {}
    for name, d in labs.items():
        e = {k: v for k, v in d.items() if k in ('ref', 'title', 'captionName', 'id', 'url') and v is not None}
        if d.get('macroName'):
            e['macroName'] = d['macroName']
        out[name] = e
    return out


def call(fn, *a):
    try:
        fn(*a)
        return None
    except common.CaseTimeout:
        raise
    except BaseException as e:
        return e


def restored_view(ctx):
    """number, title, identifier and target of every restored label"""
    out = {}
    for name, n in ctx.labels.items():
        e = {}
        for k, v in (('ref', n.__dict__.get('ref')), ('title', getattr(n, '@title', None)), ('id', getattr(n, '@id', None)), ('url', n.__dict__.get('urloverride'))):
            if v is not None:
                e[k] = v
        out[name] = e
    return out


def core(e):
    return {k: v for k, v in e.items() if k in ('ref', 'title', 'id', 'url')}


def fault_points(F, r):
    """the enumerated corruptions of file content F: list of (kind, bytes)"""
    pts = []
    for n in range(len(F) + 1):
        pts.append(('truncate', F[:n]))
    for i in range(len(F)):
        for b in range(8):
            g = bytearray(F)
            g[i] ^= (1 << b)
            pts.append(('bitflip', bytes(g)))
    for _ in range(200):
        g = bytearray(F)
        for _ in range(r.randint(2, 8)):
            g[r.randrange(len(F))] ^= (1 << r.randrange(8))
        pts.append(('multiflip', bytes(g)))
    return pts


def structural(labs, rtype):
    other = 'XHTML' if rtype == 'HTML5' else 'HTML5'
    sv = saved_view(labs)
    mk = lambda o: pickle.dumps(o)
    return [('empty', b''), ('list', mk([1, 2])), ('string', mk('hello')), ('section-list', mk({rtype: []})), ('section-str', mk({rtype: 'x'})),
            ('section-none', mk({rtype: None})), ('foreign-only', mk({other: sv})), ('garbage-tail', mk({rtype: sv}) + b'\x00garbage'),
            ('value-not-dict', mk({rtype: {'a': 1, 'b': 'x'}})), ('not-pickle', b'not a pickle at all\n'), ('int', mk(7))]


def run(case, st):
    k = case['kind']
    if k == 'faults':
        return run_faults(case, st)
    if k == 'round':
        return run_round(case, st)
    if k == 'compile':
        return run_compile(case, st)
    return run_seq(case, st)


def run_faults(case, st):
    import random
    labs, rtype = case['labels'], case['rtype']
    ctx0 = fresh_ctx()
    path = os.path.join(workdir(), 'f%d.paux' % os.getpid())
    if os.path.exists(path):
        os.remove(path)
    ctx0.persistentLabels = nodes_for(ctx0, labs)
    e = call(ctx0.persist, path, rtype)
    if e is not None:
        st.violation('persist-raises-on-fresh-file', case, repr(e))
        return {'nontrivial': True}
    F = open(path, 'rb').read()
    sv = saved_view(labs)
    try:
        if pickle.loads(F) != {rtype: sv}:
            st.violation('saved-content', case, 'persist wrote %r, expected %r' % (pickle.loads(F), {rtype: sv}))
            return {'nontrivial': True}
    except Exception as ex:
        st.violation('saved-file-not-loadable', case, repr(ex))
        return {'nontrivial': True}
    r = random.Random(case['seed'])
    pts = structural(labs, rtype) + fault_points(F, r)
    blk = case['block']
    size = budget('quick')['block']
    mine = pts[blk * size:(blk + 1) * size]
    if not mine:
        return {'skip': 'empty-block'}
    ctx = fresh_ctx()
    fresh_nodes = nodes_for(ctx, labs)
    for kind, data in mine:
        st.counters['fault_points'] += 1
        st.counters['fault:' + kind] += 1
        with open(path, 'wb') as fh:
            fh.write(data)
        ctx.labels.clear()
        ctx.persistentLabels = {}
        wou = ctx.warnOnUnrecognized
        ex = call(ctx.restore, path, rtype)
        if ex is not None:
            st.violation('restore-raises/%s/%s' % (kind, type(ex).__name__), case, 'restore of a %s file raised %r (data %r)' % (kind, ex, data[:80]))
            return {'nontrivial': True}
        got = restored_view(ctx)
        if kind not in ('bitflip', 'multiflip', 'value-not-dict'):
            for name, e in got.items():
                if name not in sv or e != core(sv[name]):
                    st.violation('restore-invents-labels/%s' % kind, case, 'after restoring a %s file label %r = %r is not one of the saved labels %r' % (kind, name, e, sv.get(name)))
                    return {'nontrivial': True}
        if kind in ('truncate',) and len(data) < len(F) and got:
            st.violation('restore-from-truncated-file', case, 'a file truncated at %d of %d bytes restored labels %r' % (len(data), len(F), sorted(got)))
            return {'nontrivial': True}
        # the next save must produce a complete, loadable file again
        ctx.persistentLabels = fresh_nodes
        ex = call(ctx.persist, path, rtype)
        if ex is not None:
            st.violation('persist-raises/%s/%s' % (kind, type(ex).__name__), case, 'persist over a %s file raised %r (data %r)' % (kind, ex, data[:80]))
            return {'nontrivial': True}
        try:
            with open(path, 'rb') as fh:
                d = pickle.load(fh)
        except Exception as ex2:
            st.violation('resaved-file-not-loadable/%s' % kind, case, 'after persist over a %s file: %r' % (kind, ex2))
            return {'nontrivial': True}
        if not isinstance(d, dict) or not isinstance(d.get(rtype), dict) or any(d[rtype].get(n) != sv[n] for n in sv):
            st.violation('resaved-file-incomplete/%s' % kind, case, 'after persist over a %s file the file holds %r, expected the complete label set %r' % (kind, d, sv))
            return {'nontrivial': True}
        ctx.labels.clear()
        ex = call(ctx.restore, path, rtype)
        if ex is not None or set(ctx.labels) < set(sv):
            st.violation('restore-after-resave/%s' % kind, case, 'restore after re-save: exception %r labels %r' % (ex, sorted(ctx.labels)))
            return {'nontrivial': True}
    st.feature('file-length', len(F) // 100 * 100)
    return {'nontrivial': len(mine) >= 50, 'sample': {'labels': sorted(labs)[:4], 'rtype': rtype, 'file_bytes': len(F), 'block': blk, 'points': len(mine)}}


def run_round(case, st):
    from ..obs import render as R
    from plasTeX.TeX import TeX
    import plasTeX
    common.plastex_reset()
    rn = case['renderer']
    other = 'XHTML' if rn == 'HTML5' else 'HTML5'
    # what the renderer itself says about every labelled object at the moment it saves the label data (node.url / node.ref /
    # node.id while the renderer's mix-ins are active): the yardstick for what a later restore must give back
    inrender = {}

    def watch_persist(tex, doc):
        ctx = doc.context
        orig = ctx.persist

        def persist(filename, rtype='none'):
            for name, node in ctx.persistentLabels.items():
                try:
                    inrender[name] = {'url': str(node.url), 'id': str(node.id), 'ref': None if node.ref is None else str(node.ref)}
                except Exception as e:
                    inrender[name] = {'error': repr(e)}
            return orig(filename, rtype)
        ctx.persist = persist
    try:
        out = R.render(case['src'], rn, before_parse=watch_persist)
    except common.CaseTimeout:
        raise
    except Exception as e:
        st.violation('render-raises-' + type(e).__name__, case, traceback.format_exc()[-600:])
        return {'nontrivial': True}
    finally:
        common.plastex_reset()
    try:
        paux = os.path.join(out.outdir, 'job.paux')
        if not os.path.exists(paux):
            st.violation('paux-not-written', case, 'no job.paux after rendering')
            return {'nontrivial': True}
        saved = pickle.load(open(paux, 'rb'))
        sec = saved.get(rn)
        labels = dict(out.doc.context.persistentLabels)
        if not isinstance(sec, dict) or set(sec) != set(labels):
            st.violation('saved-label-set', case, 'saved labels %r, document labels %r' % (sorted(sec or []), sorted(labels)))
            return {'nontrivial': True}
        pages = set(R.read_output(out.outdir))
        for name, node in labels.items():
            e = sec[name]
            ref = node.ref
            want_ref = None if ref is None else str(ref)
            if e.get('id') != name or ('ref' in e) != (want_ref is not None):
                st.violation('saved-attributes', case, 'label %s saved as %r (node ref %r)' % (name, e, want_ref))
                return {'nontrivial': True}
            url = e.get('url', '')
            if url.split('#')[0] not in pages:
                st.violation('saved-url', case, 'label %s saved with url %r which names no produced file %r' % (name, url, sorted(pages)))
                return {'nontrivial': True}
        # restore in a fresh context, under the same and under the other renderer
        ctx = fresh_ctx()
        ex = call(ctx.restore, paux, rn)
        if ex is not None:
            st.violation('restore-raises-on-valid-file', case, repr(ex))
            return {'nontrivial': True}
        if set(ctx.labels) != set(sec):
            st.violation('restored-label-set', case, 'restored %r, saved %r' % (sorted(ctx.labels), sorted(sec)))
            return {'nontrivial': True}
        for name, n in ctx.labels.items():
            e = sec[name]
            got = {'ref': n.__dict__.get('ref'), 'title': getattr(n, '@title', None), 'url': n.__dict__.get('urloverride'), 'id': n.id}
            want = {'ref': e.get('ref'), 'title': e.get('title'), 'url': e.get('url'), 'id': e.get('id')}
            if got != want:
                st.violation('restored-attributes', case, 'label %s restored as %r, saved %r' % (name, got, want))
                return {'nontrivial': True}
            live = inrender.get(name)
            if live is not None and 'error' not in live:
                st.counters['restored_vs_live_renderer'] += 1
                if (str(got['url']), got['ref'] if got['ref'] is None else str(got['ref']), str(got['id'])) != (live['url'], live['ref'], live['id']):
                    st.violation('restored-differs-from-live-renderer', case, 'label %s restored as %r; while the renderer was active the object had %r' % (name, got, live))
                    return {'nontrivial': True}
        ctx2 = fresh_ctx()
        call(ctx2.restore, paux, other)
        if ctx2.labels:
            st.violation('restore-crosses-renderers', case, 'restoring under %s sees labels saved by %s: %r' % (other, rn, sorted(ctx2.labels)))
            return {'nontrivial': True}
        # references of another document resolve to the restored objects
        if sec:
            doc2 = plasTeX.TeXDocument()
            doc2.context.restore(paux, rn)
            tex = TeX(doc2)
            tex.input('\\documentclass{article}\\begin{document}' + ' '.join('Wq%dx \\ref{%s}' % (i, l) for i, l in enumerate(sorted(sec))) + '\\end{document}')
            tex.parse()
            for rnode in doc2.getElementsByTagName('ref'):
                lab = rnode.attributes['label']
                tgt = rnode.idref.get('label')
                if tgt is not doc2.context.labels.get(lab) or tgt.__dict__.get('ref') != sec[lab].get('ref'):
                    st.violation('cross-document-reference', case, '\\ref{%s} in a second document resolves to %r' % (lab, tgt))
                    return {'nontrivial': True}
            st.counters['cross_document_refs'] += len(sec)
        # a second document that restores this file and defines some of the same label names itself (what Compile.parse sets up
        # for every other *.paux in the directory): its own labels are registered, win for its own references, and are the ones saved
        if sec:
            shared = [l for l in sorted(sec) if re.match(r'^[A-Za-z0-9:.+-]+$', l)][:2]
            own = shared + ['zzown:1']
            srcB = '\\documentclass{article}\\begin{document}' + ''.join('\\section{Zs%dy}\\label{%s} Zt%dy \\ref{%s} ' % (i, l, i, l) for i, l in enumerate(own)) + '\\end{document}'
            try:
                out3 = R.render(srcB, rn, before_parse=lambda tex, doc: doc.context.restore(paux, rn), jobname='second')
            except common.CaseTimeout:
                raise
            except Exception as e:
                st.violation('second-document/render-raises-' + type(e).__name__, case, traceback.format_exc()[-600:])
                return {'nontrivial': True}
            finally:
                common.plastex_reset()
            try:
                doc3 = out3.doc
                st.counters['second_document_shared_labels'] += len(shared)
                secs = doc3.getElementsByTagName('section')
                for i, l in enumerate(own):
                    node = doc3.context.labels.get(l)
                    if node is not secs[i]:
                        st.violation('second-document/own-label-not-registered', case, 'label %s defined by the second document names %r (ref %r), not its own section %d' % (
                            l, node, None if node is None else node.__dict__.get('ref'), i + 1))
                        return {'nontrivial': True}
                for rnode in doc3.getElementsByTagName('ref'):
                    lab = rnode.attributes['label']
                    if rnode.idref.get('label') is not secs[own.index(lab)]:
                        st.violation('second-document/own-reference', case, '\\ref{%s} of the second document resolves to %r instead of its own section' % (lab, rnode.idref.get('label')))
                        return {'nontrivial': True}
                bp = os.path.join(out3.outdir, 'second.paux')
                try:
                    d = pickle.load(open(bp, 'rb'))
                except Exception as ex:
                    d = {'<unloadable>': repr(ex)}
                if set(d.get(rn, {})) != set(own) or any(d[rn][l].get('ref') != str(i + 1) for i, l in enumerate(own)):
                    st.violation('second-document/saved-labels', case, 'second document saved %r, its own labels are %r numbered 1..%d' % (d, own, len(own)))
                    return {'nontrivial': True}
            finally:
                out3.cleanup()
        # the same parsed document rendered by a second, different renderer: its section of the file names the files *it* produced
        if sec:
            import importlib
            tdir = os.path.join(out.outdir, 'as-text')
            os.makedirs(tdir, exist_ok=True)
            cwd0 = os.getcwd()
            try:
                os.chdir(tdir)
                out.doc.config['general']['renderer'] = 'Text'
                importlib.import_module('plasTeX.Renderers.Text').Renderer().render(out.doc)
            except common.CaseTimeout:
                raise
            except Exception as e:
                st.violation('second-renderer/render-raises-' + type(e).__name__, case, traceback.format_exc()[-600:])
                return {'nontrivial': True}
            finally:
                os.chdir(cwd0)
                out.doc.config['general']['renderer'] = rn
                common.plastex_reset()
            d2 = pickle.load(open(paux, 'rb'))
            produced = set(os.listdir(tdir))
            st.counters['second_renderer_runs'] += 1
            if d2.get(rn) != sec:
                st.violation('second-renderer/first-section-changed', case, 'rendering with Text changed the %s section of the file' % rn)
                return {'nontrivial': True}
            for name, e in sorted(d2.get('Text', {}).items()):
                f = e.get('url', '').split('#')[0]
                if f and f not in produced:
                    st.violation('second-renderer/saved-url', case, 'label %s saved by the Text renderer with url %r; the Text renderer produced %r' % (name, e.get('url'), sorted(produced)[:6]))
                    return {'nontrivial': True}
            if set(d2.get('Text', {})) != set(sec):
                st.violation('second-renderer/saved-label-set', case, 'Text section holds %r, document labels %r' % (sorted(d2.get('Text', {})), sorted(sec)))
                return {'nontrivial': True}
            sec_after_text = d2
        # saving with the other renderer keeps this section intact
        ctx3 = fresh_ctx()
        ctx3.persistentLabels = nodes_for(ctx3, {'zz:1': {'id': 'zz:1', 'ref': '9', 'url': 'x.html'}})
        ex = call(ctx3.persist, paux, other)
        d = pickle.load(open(paux, 'rb'))
        if ex is not None or d.get(rn) != sec or 'zz:1' not in d.get(other, {}):
            st.violation('save-other-renderer', case, 'after saving under %s: exception %r, file %r' % (other, ex, d))
            return {'nontrivial': True}
        st.feature('round-trip', rn)
        return {'nontrivial': len(sec) >= 2, 'sample': {'renderer': rn, 'labels': sorted(sec)[:5]}}
    finally:
        out.cleanup()


def run_compile(case, st):
    """the whole path of the command-line program: Compile.run on a providing document, then on a consuming document in the same
    directory; every label the provider saved must be restored for the consumer (same number) and the consumer's references resolve"""
    import shutil
    from plasTeX import Compile
    from ..obs import render as R
    rn = case['renderer']
    tmp = tempfile.mkdtemp(prefix='c20c-', dir=os.environ.get('PVMON_TMP') or None)
    cwd = os.getcwd()
    labs = case['labels']
    try:
        os.chdir(tmp)
        # a third of the pairs keeps its sources in a sub-directory and is compiled from the directory above it, the provider by
        # Compile.run itself (what `plastex src/name.tex` does): the label data belongs to the directory the program runs in
        sub = 'src/' if common.case_hash(case)[0] % 3 == 0 else ''
        if sub:
            os.makedirs('src')
            st.counters['compiled_from_parent_directory'] += 1
        with open(sub + case['provider'] + '.tex', 'w') as f:
            f.write('\\documentclass{article}\\begin{document}' + ''.join('\\section{Zp%dy}\\label{%s} Zt%dy ' % (i, l, i) for i, l in enumerate(labs)) + '\\end{document}\n')
        own = [labs[0]] if case['shared'] else []
        with open(sub + case['consumer'] + '.tex', 'w') as f:
            f.write('\\documentclass{article}\\begin{document}Zq ' + ''.join('\\section{Zc%dy}\\label{%s} ' % (i, l) for i, l in enumerate(own))
                    + ' '.join('Wq%dx \\ref{%s}' % (i, l) for i, l in enumerate(labs)) + '\\end{document}\n')
        texs = []
        for job in (case['provider'], case['consumer']):
            cfg = R.new_config({('general', 'renderer'): rn, ('files', 'log'): False})
            common.plastex_reset()
            try:
                if sub and job == case['provider']:
                    import contextlib, io
                    cfg['files']['directory'] = 'out-$jobname'
                    with contextlib.redirect_stdout(io.StringIO()):
                        Compile.run(sub + job + '.tex', cfg)
                    os.chdir(tmp)
                    texs.append(None)
                    continue
                tex = Compile.parse(sub + job + '.tex', cfg)
                doc = tex.ownerDocument
                r = Compile.load_renderer(rn, cfg)
                out = os.path.join(tmp, 'out-' + job)
                os.makedirs(out, exist_ok=True)
                os.chdir(out)
                try:
                    r.render(doc)
                finally:
                    os.chdir(tmp)
            except common.CaseTimeout:
                raise
            except Exception as e:
                st.violation('compile/raises-' + type(e).__name__, case, 'compiling %s.tex: %s' % (job, traceback.format_exc()[-600:]))
                return {'nontrivial': True}
            finally:
                common.plastex_reset()
            texs.append(tex)
        if common.case_hash(case)[1] % 2 == 0:
            # the consuming document once more in the same process (a build script, a watcher): what was restored for the first run is
            # restored for this one too
            cfg = R.new_config({('general', 'renderer'): rn, ('files', 'log'): False})
            common.plastex_reset()
            try:
                texs[1] = Compile.parse(sub + case['consumer'] + '.tex', cfg)
            except common.CaseTimeout:
                raise
            except Exception as e:
                st.violation('compile/raises-' + type(e).__name__, case, 'compiling %s.tex a second time: %s' % (case['consumer'], traceback.format_exc()[-600:]))
                return {'nontrivial': True}
            finally:
                os.chdir(tmp)
                common.plastex_reset()
            st.counters['consumer_compiled_twice'] += 1
        st.counters['compiled_pairs'] += 1
        pp = case['provider'] + '.paux'
        if not os.path.exists(pp):
            st.violation('compile/paux-not-written', case, 'no %s in %r' % (pp, sorted(os.listdir(tmp))))
            return {'nontrivial': True}
        saved = pickle.load(open(pp, 'rb')).get(rn, {})
        doc2 = texs[1].ownerDocument
        for i, l in enumerate(labs):
            want = str(i + 1)
            if saved.get(l, {}).get('ref') != want:
                st.violation('compile/saved-number', case, 'provider saved %r for %s, its section number is %s' % (saved.get(l), l, want))
                return {'nontrivial': True}
            node = doc2.context.labels.get(l)
            if l in own:
                if node is None or node.ownerDocument is not doc2 or node.__dict__.get('ref') is not None and str(node.__dict__.get('ref')) == '' :
                    st.violation('compile/own-label', case, 'the consumer\'s own label %s names %r' % (l, node))
                    return {'nontrivial': True}
                continue
            if node is None:
                st.violation('compile/label-not-restored', case, 'label %s saved by %s.paux is not known while %s.tex is processed (labels: %r)' % (l, case['provider'], case['consumer'], sorted(doc2.context.labels)))
                return {'nontrivial': True}
            if str(node.__dict__.get('ref')) != want:
                st.violation('compile/restored-number', case, 'label %s restored with number %r, saved %r' % (l, node.__dict__.get('ref'), want))
                return {'nontrivial': True}
        for rnode in doc2.getElementsByTagName('ref'):
            l = rnode.attributes['label']
            if rnode.idref.get('label') is not doc2.context.labels.get(l):
                st.violation('compile/reference-unresolved', case, '\\ref{%s} in %s.tex resolves to %r' % (l, case['consumer'], rnode.idref.get('label')))
                return {'nontrivial': True}
        st.feature('job-names', case['provider'] + '>' + case['consumer'])
        return {'nontrivial': True, 'sample': {'provider': case['provider'], 'consumer': case['consumer'], 'labels': labs}}
    finally:
        os.chdir(cwd)
        shutil.rmtree(tmp, ignore_errors=True)


def run_seq(case, st):
    import random
    sets = case['sets']
    path = os.path.join(workdir(), 's%d.paux' % os.getpid())
    if os.path.exists(path):
        os.remove(path)
    model = None          # None = no file; 'corrupt' ; or dict rtype -> saved view
    for step, op in enumerate(case['ops']):
        st.feature('seq-op', op[0] + ':' + str(op[1]))
        if op[0] == 'save':
            ctx = fresh_ctx()
            labs = sets[op[2]]
            ctx.persistentLabels = nodes_for(ctx, labs)
            ex = call(ctx.persist, path, op[1])
            if ex is not None:
                st.violation('seq/persist-raises-%s' % type(ex).__name__, case, 'step %d %r with file state %r: %r' % (step, op, _ms(model), ex))
                return {'nontrivial': True}
            try:
                d = pickle.load(open(path, 'rb'))
            except Exception as ex2:
                st.violation('seq/file-not-loadable-after-save', case, 'step %d: %r' % (step, ex2))
                return {'nontrivial': True}
            sv = saved_view(labs)
            if not isinstance(d, dict) or not isinstance(d.get(op[1]), dict) or any(d[op[1]].get(n) != sv[n] for n in sv):
                st.violation('seq/file-incomplete-after-save', case, 'step %d %r: file %r lacks the saved labels %r' % (step, op, d, sv))
                return {'nontrivial': True}
            if isinstance(model, dict):
                model.setdefault(op[1], {}).update(sv)
                if d != model:
                    st.violation('seq/file-content-after-save', case, 'step %d %r: file %r, model %r' % (step, op, d, model))
                    return {'nontrivial': True}
            elif model is None:
                model = {op[1]: dict(sv)}
                if d != model:
                    st.violation('seq/file-content-after-save', case, 'step %d %r: file %r, model %r' % (step, op, d, model))
                    return {'nontrivial': True}
            else:
                # the file had been corrupted: whatever survived loading was merged; resynchronise on the file
                model = d if all(isinstance(v, dict) and all(isinstance(x, dict) for x in v.values()) for v in d.values()) else 'corrupt'
                if model is d:
                    # (a damaged pickle may load into a structure that contains itself: nothing to compare later files with)
                    try:
                        json.dumps(d, default=str)
                    except (ValueError, RecursionError):
                        model = 'corrupt'
        elif op[0] == 'restore':
            ctx = fresh_ctx()
            ex = call(ctx.restore, path, op[1])
            if ex is not None:
                st.violation('seq/restore-raises-%s' % type(ex).__name__, case, 'step %d %r with file state %r: %r' % (step, op, _ms(model), ex))
                return {'nontrivial': True}
            got = restored_view(ctx)
            if isinstance(model, dict):
                want = {n: core(e) for n, e in model.get(op[1], {}).items()}
                if got != want:
                    st.violation('seq/restored-labels', case, 'step %d %r: restored %r, model %r' % (step, op, got, want))
                    return {'nontrivial': True}
            elif model is None and got:
                st.violation('seq/labels-from-missing-file', case, 'step %d: %r' % (step, got))
                return {'nontrivial': True}
        else:
            kind = op[1]
            rr = random.Random(op[2])
            if kind == 'delete' or not os.path.exists(path):
                if os.path.exists(path):
                    os.remove(path)
                model = None
                continue
            F = open(path, 'rb').read()
            if kind == 'truncate':
                G = F[:rr.randrange(len(F))] if F else b''
            elif kind == 'flip':
                g = bytearray(F)
                if g:
                    g[rr.randrange(len(g))] ^= 1 << rr.randrange(8)
                G = bytes(g)
            elif kind == 'empty':
                G = b''
            elif kind == 'list':
                G = pickle.dumps([1, 2, 3])
            else:
                G = pickle.dumps({'HTML5': [], 'XHTML': 'x'})
            with open(path, 'wb') as fh:
                fh.write(G)
            model = 'corrupt'
    return {'nontrivial': len(case['ops']) >= 3, 'sample': {'ops': case['ops']}}


def _ms(m):
    return m if not isinstance(m, dict) else {k: sorted(v) for k, v in m.items()}
