"""C08 -- counters and automatic numbers follow LaTeX's numbering rules.

Monitors: (1) an independent LaTeX counter machine (pvmon.model.counters, written
from article.cls/book.cls) walks the same AST as the printer and yields the
expected printed number of every numbered object in document order; the numbers
attached to the parsed nodes (node.ref) are compared with it; (2) invariant at a
hook: after every real Counter.stepcounter, every counter transitively declared
within the stepped one has value 0 (checked on the live context.counters);
(3) exhaustive representation table arabic/roman/Roman 1..4999, alph/Alph 1..26
against an independent converter."""
import traceback
from .. import common
from ..instrument import wrap
from ..gen import docs
from ..model import counters as CM

PROP = 'C08'
LEVEL = 'exploration'
RULE = ('documents (article/book) dense in numbered constructs: sections to 4 levels (starred, skipped levels), equations (starred), eqnarray rows with '
        '\\nonumber, figure/table captions (before/after the float body), theorems (own counter / shared counter / numbered within section), enumerate '
        'lists nested to depth 4, \\appendix, \\setcounter/\\addtocounter/\\stepcounter at random points, sec-num-depth in 0..4; plus the exhaustive '
        'representation table (10 050 values).  Non-trivial = >= 4 numbered objects of >= 2 kinds; distinct by document text.')
ASSUMPTIONS = ['LaTeX counter machine pvmon/model/counters.py (article.cls/book.cls within-relations and \\the formats)',
               'NF-12: list counters are not assigned from outside their list; \\part numbers are not judged',
               'objects are aligned with the AST by kind and document order (C07 decides order)']
DECIDING_HOOKS = ['Counter.stepcounter']
DECIDING_COUNTERS = {'numbers_compared': 200}


def budget(tier):
    return {'n': 1600 if tier == 'quick' else 30000, 'case_timeout': 60}


_hook_viol = []
_st = None


def setup(st):
    global _st
    _st = st
    import plasTeX

    def after(tok, res, exc, self, *a):
        if exc is not None:
            return
        # transitive reset invariant on the live counters
        cs = self.counters
        todo = [self.name]
        seen = set()
        while todo:
            p = todo.pop()
            for c in list(cs.values()):
                if c.resetby and c.resetby == p and c.name not in seen:
                    seen.add(c.name)
                    todo.append(c.name)
                    if c.value != 0:
                        _hook_viol.append('after stepping %s the counter %s (declared within %s) is %r' % (self.name, c.name, c.resetby, c.value))
        st.counters['reset_invariant_checks'] += 1
    wrap(plasTeX.Counter, 'stepcounter', after=after, stats=st)
    wrap(plasTeX.Counter, 'setcounter', stats=st)
    wrap(plasTeX.Counter, 'addtocounter', stats=st)


def anchors():
    import plasTeX
    from plasTeX.Context import Context
    from plasTeX.Base.LaTeX import Lists, Math, Floats, Definitions
    return {'Counter.stepcounter': plasTeX.Counter.stepcounter, 'Counter.resetcounters': plasTeX.Counter.resetcounters, 'numToRoman': plasTeX.numToRoman,
            'TheCounter.invoke': plasTeX.TheCounter.invoke, 'Macro.preArgument': plasTeX.Macro.preArgument, 'Macro.postArgument': plasTeX.Macro.postArgument,
            'Macro.refstepcounter': plasTeX.Macro.refstepcounter, 'Macro.postParse': plasTeX.Macro.postParse, 'Context.newcounter': Context.newcounter,
            'List.invoke': Lists.List.invoke, 'List.item.invoke': Lists.List.item.invoke, 'eqnarray.EndRow.invoke': Math.eqnarray.EndRow.invoke,
            'nonumber.invoke': Math.nonumber.invoke, 'newtheorem.invoke': Definitions.newtheorem.invoke}


def cases(seed, tier, shard, nshards):
    if shard == 0:
        yield {'kind': 'repr'}
    for i in common.sharded(budget(tier)['n'], shard, nshards):
        r = common.rng_for(seed, PROP, i)
        d = docs.gen(r, counters=True, eqnarray=True, appendix=r.random() < 0.4, verbatim=False, boxes=False, footnotes=False, refs=False,
                     tables=r.random() < 0.3, depth=r.choice([2, 3, 4]), maxsec=r.choice([4, 8, 12]), blocks=(1, 5), fonts=False)
        depth = r.choice([2, 2, 0, 1, 3, 4])
        if 'zqdef' in d.get('theorems', []):
            # theorems numbered within section are only generated when sections are numbered (LaTeX does
            # not even step the counter of a unit deeper than secnumdepth; the statement does not go there)
            depth = max(depth, 1)
        exp, m = CM.numbers(d, depth)
        yield {'kind': 'doc', 'src': docs.latex(d), 'expect': [[k, n] for k, n, _ in exp], 'depth': depth, 'cls': d['cls'], 'final': dict(m.v), 'user_trace': (list(m.user_trace) if depth >= 1 else []),      # NF-13: counters within section are judged only when sections are numbered
               'has_counter_ops': 'counter{' in docs.latex(d)}


SEC = ('part', 'chapter', 'section', 'subsection', 'subsubsection', 'paragraph', 'subparagraph')


def collect(node, out):
    for c in (node.childNodes if node.hasChildNodes() else []):
        if c.nodeType != 1:
            continue
        nm = c.nodeName
        if nm in SEC:
            out.append(('sec', ref_of(c), nm))
        elif nm in ('equation', 'equation*'):
            out.append(('equation', ref_of(c), nm))
        elif nm == 'eqnarray':
            for row in c.childNodes:
                if getattr(row, 'nodeName', None) == 'ArrayRow':
                    out.append(('eqnrow', ref_of(row), nm))
        elif nm == 'caption':
            out.append(('caption', ref_of(c), nm))
        elif nm == 'thmenv':
            out.append(('theorem', ref_of(c), nm))
        elif nm == 'item' and getattr(c.parentNode, 'nodeName', None) == 'enumerate':
            out.append(('item', ref_of(c), nm))
        collect(c, out)
        # captions live in attributes of nothing; titles are attributes but hold no numbered objects


def ref_of(n):
    r = getattr(n, 'ref', None)
    if r is None:
        return None
    t = getattr(r, 'textContent', r)
    return str(t).strip()


def run(case, st):
    if case['kind'] == 'repr':
        return run_repr(case, st)
    from plasTeX.TeX import TeX
    common.plastex_reset()
    del _hook_viol[:]
    src = case['src']
    try:
        tex = TeX()
        tex.ownerDocument.config['document']['sec-num-depth'] = case['depth']
        tex.input(src)
        doc = tex.parse()
    except common.CaseTimeout:
        raise
    except Exception as e:
        st.violation('parse-raises-' + type(e).__name__, case, traceback.format_exc()[-500:] + src[:800])
        return {'nontrivial': True}
    finally:
        common.plastex_reset()
    got = []
    collect(doc, got)
    exp = [tuple(x) for x in case['expect']]
    exp_nopart = exp
    kinds = set()
    bad = None
    if [g[0] for g in got] != [e[0] for e in exp]:
        bad = ('numbered-object-sequence', 'kinds of numbered objects differ: tree %s, source %s' % ([g[0] for g in got][:30], [e[0] for e in exp][:30]))
    else:
        for i, (g, e) in enumerate(zip(got, exp)):
            kinds.add(e[0])
            st.counters['numbers_compared'] += 1
            if e[1] == 'part' or g[2] == 'part':
                continue
            if e[1] is not None and '?' in e[1]:
                continue        # \Alph of a value outside 1..26: outside the range the statement covers
            if g[1] != e[1]:
                bad = (classify(case, g, e), 'object %d (%s %s): printed number %r, LaTeX rules give %r (sec-num-depth %d; preceding: %s)' % (
                    i, e[0], g[2], g[1], e[1], case['depth'], [x[1] for x in got[max(0, i - 4):i]]))
                break
            st.feature('numbered', '%s:%s' % (e[0], 'none' if e[1] is None else ('dotted' if '.' in e[1] else ('alpha' if e[1].isalpha() else 'plain'))))
    if case.get('user_trace') and not bad:
        import re
        seen = re.findall(r'Zu\d+v\d+w', str(doc.textContent))
        st.counters['user_counter_probes'] += len(case['user_trace'])
        if seen != case['user_trace']:
            k = 0
            while k < min(len(seen), len(case['user_trace'])) and seen[k] == case['user_trace'][k]:
                k += 1
            bad = ('user-counter-chain', 'user counters declared with \\newcounter{zqu}[section]\\newcounter{zqw}[zqu]: probe %d prints %r, LaTeX rules give %r (all: %r / %r)' % (
                k, seen[k:k + 1], case['user_trace'][k:k + 1], seen[:8], case['user_trace'][:8]))
    if bad:
        st.violation(bad[0], case, bad[1] + '\n' + src[:1500])
    for msg in _hook_viol[:1]:
        st.violation('transitive-reset-broken-at-hook', case, msg)
    return {'nontrivial': len(exp) >= 4 and len(kinds) >= 2, 'sample': {'src': src[:500], 'numbers': [e[1] for e in exp][:12]}}


def classify(case, g, e):
    if case.get('has_counter_ops'):
        return 'number-differs/with-explicit-counter-assignment/' + e[0]
    if case['cls'] == 'book' and e[0] == 'equation' and g[1] is not None and g[1].startswith('0.'):
        return 'book-equation-before-first-chapter-prints-0-prefix'
    return 'number-differs/' + e[0]


def run_repr(case, st):
    import plasTeX
    from plasTeX.Context import Context
    ctx = Context(load=False)
    c = plasTeX.Counter(ctx, 'zz')
    n = 0
    for v in range(1, 5000):
        c.value = v
        for fmt, want in (('arabic', str(v)), ('roman', CM.roman(v)), ('Roman', CM.roman(v, True))):
            n += 1
            if getattr(c, fmt) != want:
                st.violation('representation-' + fmt, case, '%s of %d is %r, standard %r' % (fmt, v, getattr(c, fmt), want))
                return {'nontrivial': True}
    for v in range(1, 27):
        c.value = v
        for fmt, want in (('alph', CM.alph(v)), ('Alph', CM.alph(v, True))):
            n += 1
            if getattr(c, fmt) != want:
                st.violation('representation-' + fmt, case, '%s of %d is %r, standard %r' % (fmt, v, getattr(c, fmt), want))
                return {'nontrivial': True}
    st.counters['representation_values_checked'] += n
    return {'nontrivial': True, 'sample': {'representations': n}}
