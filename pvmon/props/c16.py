"""C16 -- configuration values come from defaults, files and command line in that order.

Monitor: a layering model (defaults < file1 < file2 < file3 < argv; scalars
replace, lists extend, dictionaries update; documented boolean spellings;
%(name)s / %% interpolation on read-back) folded over generated layers, against
the real ConfigManager driven the way plasTeX.client.main drives it:
defaultConfig() + collect_renderer_config, ConfigManager.read on real INI files,
the real argparse parser from registerArgparse, updateFromDict.  Documented
defaults are parsed from Doc/command.tex (an oracle independent of Config.py);
options the manual does not list fall back to a frozen table, stated as a
regression oracle in the evidence."""
import copy
import os, re, sys, json, tempfile, shutil, traceback
from .. import common

PROP = 'C16'
LEVEL = 'exploration'
RULE = ('every option of every section (incl. the html5 and mathjax-macros sections contributed by the renderer) x type-appropriate values (strings with '
        'spaces, %%, %(renderer)s; negative integers; floats; all boolean spellings yes/no/true/false/on/off/1/0 in any case; multi-value lists with '
        'quoting; key=value dictionaries in both file forms) x layerings of 0-3 INI files and an argv in which each option is independently present; '
        'plus one case comparing every documented default of Doc/command.tex with the code.  Non-trivial = >= 2 layers set at least one common '
        'option or >= 4 options are set; distinct by content hash.')
ASSUMPTIONS = ['layering model in pvmon/props/c16.py', 'Doc/command.tex is the statement of the documented defaults; options it does not list are compared '
               'with the frozen table pvmon/model/defaults_frozen.json (regression oracle)',
               'strings are generated without leading/trailing blanks and without a lone % (INI syntax / interpolation syntax)']
DECIDING_COUNTERS = {'options_compared': 1000}


def budget(tier):
    return {'n': 6000 if tier == 'quick' else 150000, 'case_timeout': 30}


def setup(st):
    pass


def anchors():
    from plasTeX import ConfigManager as CM
    return {'ConfigOption.setFromString': CM.ConfigOption.setFromString, 'ConfigOption.updateFromDict': CM.ConfigOption.updateFromDict,
            'BooleanOption.registerArgparse': CM.BooleanOption.registerArgparse, 'MultiStringOption.setFromString': CM.MultiStringOption.setFromString,
            'MultiStringOption.updateFromDict': CM.MultiStringOption.updateFromDict, 'DictOption.setFromString': CM.DictOption.setFromString,
            'DictOption.updateFromDict': CM.DictOption.updateFromDict, 'ConfigManager.read': CM.ConfigManager.read,
            'ConfigSection.__getitem__': CM.ConfigSection.__getitem__, 'InterpolationWrapper.__getitem__': CM.InterpolationWrapper.__getitem__}


def new_config():
    from plasTeX.Config import defaultConfig
    from plasTeX.client import collect_renderer_config
    c = defaultConfig()
    collect_renderer_config(c)
    return c


_catalogue = None
_first_defaults = None
_previous = None


def catalogue():
    """[(section, key, kind, flags)] -- names and declared types only"""
    global _catalogue
    if _catalogue is None:
        from plasTeX import ConfigManager as CM
        c = new_config()
        out = []
        for sec in c:
            for key, opt in c[sec].data.items():
                if isinstance(opt, CM.BooleanOption):
                    kind = 'bool'
                elif isinstance(opt, CM.MultiStringOption):
                    kind = 'list'
                elif isinstance(opt, CM.IntegerOption):
                    kind = 'int'
                elif isinstance(opt, CM.FloatOption):
                    kind = 'float'
                elif isinstance(opt, CM.DictOption):
                    kind = 'dict:' + ('int' if sec == 'counters' else 'float' if key == 'scales' else 'links' if sec == 'links' else 'str')
                else:
                    kind = 'str'
                flags = list(opt.options)
                out.append((sec, key, kind, flags))
        _catalogue = out
    return _catalogue


BOOL_T = ['yes', 'true', 'on', '1', 'Yes', 'TRUE', 'On']
BOOL_F = ['no', 'false', 'off', '0', 'No', 'FALSE', 'Off']
STRS = ['abc', 'a b c', 'x-%(renderer)s', '100%% sure', 'level %(split-level)d', 'Zq', 'path/to/file', 'q=1;r', 'a,b', '']
WORDS = ['alpha', 'beta', 'g d', 'x', 'dir/one', 'two-2', 'p,q', 's,a,b,g']


def gen_value(r, sec, key, kind, src):
    """-> (printable form for the source, python value / list to add / dict to merge)"""
    if kind == 'bool':
        v = r.random() < 0.5
        return (r.choice(BOOL_T if v else BOOL_F), v)
    if kind == 'int':
        v = r.choice([0, 1, 2, 5, -3, 10, 42])
        return (str(v), v)
    if kind == 'float':
        v = r.choice([0.5, 1.0, 2.25, 10.0])
        return (repr(v), v)
    if kind == 'str':
        v = r.choice(STRS)
        if key in ('renderer', 'split-level') or (src == 'argv' and (v == '' or v.startswith('-'))):
            v = r.choice(['abc', 'Zq', 'HTML5'])
        return (v, v)
    if kind == 'list':
        items = [r.choice(WORDS) for _ in range(r.randint(1, 3))]
        if src == 'file':
            return (' '.join('"%s"' % i if ' ' in i else i for i in items), items)
        return (items, items)
    # dictionaries
    sub = kind.split(':')[1]
    d = {}
    for _ in range(r.randint(1, 2)):
        k = r.choice(['chapter', 'section', 'zq', 'fig'])
        if sub != 'links' and r.random() < 0.3:
            # dotted names, as loggers have them (parse.environments)
            k = r.choice(['parse.environments', 'render.images', 'zq.a_b'])
        if src == 'argv' and r.random() < 0.4:
            # keys given on the command line keep their spelling (a configuration file's keys are lower-cased by its parser)
            k = r.choice(['Chapter', 'RR', 'zQ', 'FIG', 'section'])
        if sub == 'int':
            d[k] = r.choice([1, 2, 3, 7])
        elif sub == 'float':
            d[k] = r.choice([0.5, 1.5, 2.0])
        else:
            d[k] = r.choice(['DEBUG', 'x y', 'Zq'])
    return (d, d)


# paired flags as the manual lists them ("--x or --no-x"): (switching on, switching off)
DOC_BOOL_FLAGS = {
    ('general', 'copy-theme-extras'): (['--copy-theme-extras'], ['--no-theme-extras']),
    ('general', 'load-tex-packages'): (['--load-tex-packages'], ['--no-load-tex-packages']),
    ('images', 'enabled'): (['--enable-images'], ['--disable-images']),
    ('images', 'cache'): (['--enable-image-cache'], ['--disable-image-cache']),
    ('images', 'save-file'): (['--save-image-file'], ['--delete-image-file']),
    ('images', 'transparent'): (['--transparent-images'], ['--opaque-images']),
    ('html5', 'use-theme-css'): (['--use-theme-css'], ['--no-theme-css']),
    ('html5', 'use-theme-js'): (['--use-theme-js'], ['--no-theme-js']),
    ('html5', 'display-toc'): (['--display-toc'], ['--no-display-toc']),
    ('html5', 'use-mathjax'): (['--use-mathjax'], ['--no-mathjax']),
    ('html5', 'mathjax-dollars'): (['--dollars'], ['--no-dollars']),
}


def gen_case(r):
    cat = catalogue()
    nfiles = r.choice([0, 1, 1, 2, 3])
    layers = []
    dense = r.random() < 0.3
    hot = r.sample(range(len(cat)), 4)
    for li in range(nfiles):
        items = []
        for i, (sec, key, kind, flags) in enumerate(cat):
            p = 0.5 if i in hot else (0.2 if dense else 0.05)
            if r.random() < p:
                txt, val = gen_value(r, sec, key, kind, 'file')
                form = 'plain'
                if kind.startswith('dict'):
                    form = r.choice(['keys', 'packed']) if kind != 'dict:links' else 'keys'
                items.append([sec, key, kind, txt, val, form])
        layers.append(items)
    argv = []
    for i, (sec, key, kind, flags) in enumerate(cat):
        p = 0.4 if i in hot else 0.05
        if r.random() < p:
            txt, val = gen_value(r, sec, key, kind, 'argv')
            if kind == 'bool':
                en = [f for f in flags if not f.startswith('!')]
                dis = [f[1:] for f in flags if f.startswith('!')]
                # the documented pairs (Doc/command.tex) decide which flag switches on and which off, not the declaration under test
                if (sec, key) in DOC_BOOL_FLAGS:
                    en, dis = [list(x) for x in DOC_BOOL_FLAGS[(sec, key)]]
                if val is False and not dis:
                    continue
                argv.append([sec, key, kind, r.choice(en) if val else r.choice(dis), val])
            else:
                argv.append([sec, key, kind, flags[0], val])
    return {'kind': 'layers', 'files': layers, 'argv': argv}


def cases(seed, tier, shard, nshards):
    if shard == 0:
        yield {'kind': 'defaults'}
    for i in common.sharded(budget(tier)['n'], shard, nshards):
        yield gen_case(common.rng_for(seed, PROP, i))


# ---------------------------------------------------------------------------

def write_ini(path, items):
    secs = {}
    for sec, key, kind, txt, val, form in items:
        lines = secs.setdefault(sec, [])
        if kind.startswith('dict'):
            if form == 'packed':
                lines.append('%s = %s' % (key, ','.join('%s=%s' % (k, v) for k, v in val.items())))
            else:
                for k, v in val.items():
                    kk = k + '-title' if kind == 'dict:links' else k
                    lines.append('%s = %s' % (kk, v))
        else:
            lines.append('%s = %s' % (key, txt))
    with open(path, 'w', encoding='utf-8') as f:
        for sec, lines in secs.items():
            f.write('[%s]\n' % sec)
            for l in lines:
                f.write(l + '\n')
            f.write('\n')


class _Driven(Exception):
    pass


def build_argv(items):
    out = []
    for sec, key, kind, flag, val in items:
        if kind == 'bool':
            out.append(flag)
        elif kind == 'list':
            out.append(flag)
            out.extend(val)
        elif kind.startswith('dict'):
            for k, v in val.items():
                out.extend([flag, k, str(v)])
        else:
            out.extend([flag, str(val)])
    return out


def interpolate(s, final):
    def look(name):
        for sec in final:
            if name in final[sec]:
                v = final[sec][name]
                return interpolate(v, final) if isinstance(v, str) else v
        raise KeyError(name)
    out = ''
    i = 0
    while i < len(s):
        if s[i] == '%':
            if s[i + 1:i + 2] == '%':
                out += '%'
                i += 2
                continue
            m = re.match(r'%\((.*?)\)([sd])', s[i:])
            if m:
                out += str(look(m.group(1)))
                i += m.end()
                continue
        out += s[i]
        i += 1
    return out


def run(case, st):
    if case['kind'] == 'defaults':
        return run_defaults(case, st)
    from argparse import ArgumentParser
    global _first_defaults, _previous
    # the configuration built for the previous case must not move while another one is built and filled
    prev = _previous
    cfg = new_config()
    # expected: fold over the layers
    final = {sec: {} for sec in cfg}
    for sec, key, kind, flags in catalogue():
        v = cfg[sec].data[key].value
        final[sec][key] = list(v) if isinstance(v, list) else (dict(v) if isinstance(v, dict) else v)
    # a configuration object built from nothing starts at the defaults, whatever other configuration objects of the
    # same process were given before (the first one of the process is the yardstick; it is compared with the manual
    # by the 'defaults' case)
    if _first_defaults is None:
        _first_defaults = copy.deepcopy(final)
    else:
        st.counters['fresh_configurations_compared'] += 1
        for sec, key, kind, flags in catalogue():
            if final[sec][key] != _first_defaults[sec][key]:
                st.violation('fresh-configuration-not-at-defaults/' + kind.split(':')[0], case, '%s.%s of a newly built configuration is %r, the first configuration of the process started with %r' % (sec, key, final[sec][key], _first_defaults[sec][key]))
                final = copy.deepcopy(_first_defaults)
                break
    touched = {}

    def apply(sec, key, kind, val, src):
        if kind == 'list':
            final[sec][key] = final[sec][key] + list(val)
        elif kind.startswith('dict'):
            for k, v in val.items():
                kk = (k + '-title') if kind == 'dict:links' else k
                final[sec][key][kk] = v
        else:
            final[sec][key] = val
        touched.setdefault((sec, key), []).append(src)
        st.feature('type x source', '%s/%s' % (kind.split(':')[0], src))
    tmp = tempfile.mkdtemp(prefix='c16-', dir=os.environ.get('PVMON_TMP') or None)
    try:
        paths = []
        for li, items in enumerate(case['files']):
            p = os.path.join(tmp, '%s-conf%d.ini' % ('zma'[li % 3], li))      # (the order given is not the alphabetical order)
            write_ini(p, items)
            paths.append(p)
            for sec, key, kind, txt, val, form in items:
                apply(sec, key, kind, val, 'file%d' % (li + 1))
        for sec, key, kind, flag, val in case['argv']:
            apply(sec, key, kind, val, 'argv')
        argv = build_argv(case['argv'])
        try:
            files_arg = paths if len(paths) > 1 or paths == [] else (paths if common.case_hash(case)[0] % 2 else paths[0])
            # two orders of the same public calls: the one of plasTeX.client.main (parser built and command line parsed
            # before the files are read) and the one of the unit tests (files first)
            order = 'client' if common.case_hash(case)[1] % 3 else 'files-first'
            if order == 'client' and common.case_hash(case)[3] % 3 == 0 and not any(f.startswith('-c') for f in argv):
                # the command-line program itself: plasTeX.client.main with -c for every file, up to the point where it hands the
                # configuration to the converter
                order = 'main'
            st.feature('call-order', order)
            # a third of the cases read every option back between the layers (a program may look at its configuration at any time;
            # what it sees later must still be the current values)
            peek = common.case_hash(case)[2] % 3 == 0
            st.feature('read-back-between-layers', peek)

            def read_files():
                if peek and len(paths) > 1:
                    for p_ in paths:
                        cfg.read(p_)
                        peek_all()
                else:
                    cfg.read(files_arg)

            def peek_all():
                for sec_, key_, kind_, flags_ in catalogue():
                    try:
                        cfg[sec_][key_]
                    except Exception:
                        pass
                st.counters['intermediate_read_backs'] += 1
            if order == 'main':
                import contextlib, io
                import plasTeX.client as PC
                got = []
                real_run = PC.run
                PC.run = lambda filename, config: got.append(config)
                try:
                    with contextlib.redirect_stdout(io.StringIO()):
                        PC.main(['zq.tex'] + [x for p_ in paths for x in ('-c', p_)] + argv)
                finally:
                    PC.run = real_run
                cfg = got[0]
                st.counters['driven_through_client_main'] += 1
                raise _Driven()
            if peek:
                peek_all()
            if order == 'files-first' and paths:
                read_files()
            parser = ArgumentParser('plasTeX')
            cfg.registerArgparse(parser)
            data = vars(parser.parse_args(argv))
            if order == 'client' and paths:
                read_files()
            if peek:
                peek_all()
            cfg.updateFromDict(data)
        except _Driven:
            pass
        except common.CaseTimeout:
            raise
        except BaseException as e:
            st.violation('raises-' + type(e).__name__, case, 'files=%r argv=%r: %s' % (case['files'], argv, traceback.format_exc()[-500:]))
            return {'nontrivial': True}
        bad = []
        for sec, key, kind, flags in catalogue():
            st.counters['options_compared'] += 1
            want = final[sec][key]
            try:
                if isinstance(want, str):
                    want = interpolate(want, final)
                elif isinstance(want, list) and want and isinstance(want[0], str):
                    want = [interpolate(x, final) for x in want]
                got = cfg[sec][key]
                # the other way to read an option back (the renderers use it): it gives the same value
                got2 = cfg[sec].get(key, '<absent>')
                st.counters['read_backs_through_get'] += 1
                if got2 != got:
                    bad.append((sec, key, kind, 'section.get(%r) gives %r, section[%r] gives %r' % (key, got2, key, got)))
                    continue
            except common.CaseTimeout:
                raise
            except Exception as e:
                bad.append((sec, key, kind, 'read-back raised %r' % e))
                continue
            same = (got == want) and (type(got) is type(want) or kind in ('float',))
            if kind == 'float':
                same = abs(float(got) - float(want)) < 1e-12
            if not same:
                bad.append((sec, key, kind, 'value %r (%s), layers give %r (%s); set by %s' % (got, type(got).__name__, want, type(want).__name__, touched.get((sec, key), ['default']))))
        for sec, key, kind, msg in bad[:3]:
            srcs = touched.get((sec, key), ['default'])
            k = 'layering/%s/%s' % (kind.split(':')[0], 'file' if srcs[-1].startswith('file') else srcs[-1])
            st.violation(k, case, '%s.%s: %s' % (sec, key, msg))
    finally:
        shutil.rmtree(tmp, ignore_errors=True)
    if prev is not None:
        pcfg, pvals = prev
        st.counters['earlier_configurations_reread'] += 1
        for (sec, key), was in pvals.items():
            try:
                now = pcfg[sec][key]
            except Exception as e:
                now = 'raises %r' % e
            if now != was:
                st.violation('earlier-configuration-moved', case, '%s.%s of the configuration of the previous case read %r when that case ended and reads %r after this case filled its own configuration' % (sec, key, was, now))
                break
    vals = {}
    for sec, key, kind, flags in catalogue():
        try:
            v = cfg[sec][key]
            vals[(sec, key)] = copy.deepcopy(v)
        except Exception:
            pass
    _previous = (cfg, vals)
    multi = any(len(v) >= 2 for v in touched.values())
    return {'nontrivial': multi or len(touched) >= 4, 'sample': {'files': [[(i[0], i[1], i[3]) for i in f[:4]] for f in case['files']], 'argv': build_argv(case['argv'])[:8]}}


# ---------------------------------------------------------------------------
# documented defaults

def detex(v):
    rep = [('\\textasciicircum', '^'), ('\\textasciitilde', '\x00T\x00'), ('\\textbackslash', '\\'), ('\\$', '$'), ('\\#', '#'), ('\\%', '%'), ('\\&', '&'),
           ('\\{', '{'), ('\\}', '}'), ('~', ' '), ('\x00T\x00', '~')]
    for a, b in rep:
        v = v.replace(a, b)
    return v


def manual_defaults():
    s = open(os.path.join(common.REPO, 'Doc', 'command.tex'), encoding='utf-8').read()
    out = {}
    for m in re.finditer(r'\\config\{([^}]*)\}\{([^}]*)\}', s):
        sec, key = m.group(1), m.group(2)
        rest = s[m.end():m.end() + 600]
        nxt = rest.find('\\config{')
        seg = rest if nxt < 0 else rest[:nxt]
        d = re.search(r'\\default\{', seg)
        if not d:
            continue
        i = d.end()
        depth = 1
        j = i
        while j < len(seg) and depth:
            if seg[j] == '{' and seg[j - 1] != '\\':
                depth += 1
            elif seg[j] == '}' and seg[j - 1] != '\\':
                depth -= 1
            j += 1
        out[(sec, key)] = detex(seg[i:j - 1])
    return out


def norm_default(v):
    if isinstance(v, bool):
        return v
    if isinstance(v, (list, dict)):
        return v
    return v


def run_defaults(case, st):
    cfg = new_config()
    man = manual_defaults()
    frozen = json.load(open(os.path.join(common.VERIF, 'pvmon', 'model', 'defaults_frozen.json')))
    n = 0
    for sec, key, kind, flags in catalogue():
        raw = cfg[sec].data[key].value
        code = raw.replace('%%', '%') if isinstance(raw, str) else raw
        if (sec, key) in man:
            txt = man[(sec, key)].strip()
            if kind == 'bool':
                want = txt.lower() in ('yes', 'true', 'on', '1')
                ok = code is want
            elif kind == 'int':
                ok = (txt == 'Node.DOCUMENT_LEVEL-1' and code == -sys.maxsize - 1) or (re.fullmatch(r'-?\d+', txt) is not None and int(txt) == code)
            elif kind == 'float':
                ok = float(txt) == code
            elif kind == 'list':
                ok = txt == '[]' and code == []
            elif kind.startswith('dict'):
                ok = txt in ('{}', '') and code == {}
            else:
                ok = txt == code
            st.feature('default-oracle', 'manual')
            if not ok:
                st.violation('doc-default:%s.%s' % (sec, key), case, 'option %s.%s: the manual (Doc/command.tex) documents the default %r, the code has %r' % (sec, key, txt, code))
        else:
            st.feature('default-oracle', 'frozen-table')
            fk = '%s.%s' % (sec, key)
            if fk not in frozen:
                st.violation('undocumented-new-option:%s' % fk, case, 'option %s is neither in the manual nor in the frozen table' % fk)
            elif frozen[fk] != code:
                st.violation('frozen-default-changed:%s' % fk, case, 'option %s: default %r, frozen table %r' % (fk, code, frozen[fk]))
        n += 1
    st.counters['defaults_compared'] += n
    st.counters['options_compared'] += n
    return {'nontrivial': True, 'sample': {'documented_defaults': len(man), 'options': n}}
