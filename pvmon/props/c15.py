"""C15 -- the filename generator yields unique, clean names in template order.

Monitor shape: history + executable reference model.  A template is generated
from the documented grammar together with a request history (per-request
variable bindings); the real `plasTeX.Filenames.Filenames` object is driven
through its public API exactly the way `Renderable.filename` drives it
(`fn.variables[k] = v` then `fn()`), a wrapper on `Filenames.__next__` records
every (bindings, result | exception) event, and the model below -- written from
the docstring and the property statement, not from `_newFilename` -- decides each
event.  Termination is decided on a logical step bound (backward jumps inside
`_newFilename`), not on the clock.
"""
import re, itertools
from .. import common
from ..instrument import wrap
from ..reach import JumpCounter, StepBound

PROP = 'C15'
LEVEL = 'exploration'
RULE = ('templates generated from the documented grammar (0-3 static names, one wildcard with 1-4 alternatives, '
        'variables id/title/name/ref/jobname/num with and without (n), ${..} forms, blanks inside [ , ]) x request '
        'histories of <= 12 bindings (repeated, missing, empty, blank-only, bad-character and dotted values) x '
        'forbidden-character sets x reserved names; plus an exhaustive small scope (2 templates x bindings over '
        '{unset,a,b}^2 x length <= 4).  A case is non-trivial when at least one request reached the wildcard phase '
        'and at least one name was issued; distinct = distinct (template, settings, history) by content hash.')
ASSUMPTIONS = ['reference model pvmon/props/c15.py:Model encodes the statement (first bound alternative that gives a fresh name; '
               '$num advances per numbered candidate issued or skipped)',
               'reserved-name sets are small (<= 4), so the 100-pass give-up bound is not reached by a formable name']
DECIDING_HOOKS = ['Filenames.__next__']
DECIDING_REACH = ['Filenames._newFilename']

JUMP_LIMIT = 400000


def budget(tier):
    return {'n': 20000 if tier == 'quick' else 400000, 'case_timeout': 20}


_jc = None
_events = []


def setup(st):
    global _jc
    from plasTeX.Filenames import Filenames

    def before(self):
        if _jc is not None:
            _jc.reset(JUMP_LIMIT)
        return dict(self.variables)

    def after(tok, res, exc, self):
        _events.append((tok, res, exc))
    wrap(Filenames, '__next__', after=after, before=before, stats=st)
    _jc = JumpCounter([Filenames._newFilename])
    _jc.start()


def teardown(st):
    if _jc is not None:
        _jc.reset(1 << 60)
        st.counters['max_backward_jumps_per_request'] = max(st.counters.get('max_backward_jumps_per_request', 0), _jc.maxseen)
        _jc.stop()


def anchors():
    from plasTeX.Filenames import Filenames
    return {'Filenames._newFilename': Filenames._newFilename, 'Filenames.parseFilenames': Filenames.parseFilenames,
            'Filenames.addExtension': Filenames.addExtension}


# ---------------------------------------------------------------------------
# generator

VARS = ['id', 'title', 'name', 'ref', 'jobname']
LIT = 'abcxyz019-_'
WORDS = ['Hello', 'big', 'world', 'a', 'b', 'Intro', 'x1', 'sec', 'A', 'one', 'two']
BADSETS = [': #$%^&*!~`"\'=?/{}[]()|<>;\\,.', ' ', '', ':/ ', 'ab', '.', ' .#']


def gen_piece(r, allow_num=True, exclude=()):
    """One template fragment as an AST: list of ('lit', s) | ('var', name, n|None, brace)"""
    out = []
    used = set(exclude)
    for _ in range(r.choice([1, 1, 2, 2, 3])):
        k = r.random()
        if k < 0.4:
            out.append(('lit', ''.join(r.choice(LIT) for _ in range(r.randint(1, 3)))))
        else:
            # each variable at most once per name (one value per variable is all the
            # documented string.Template substitution can express)
            names = [v for v in VARS + (['num', 'num'] if allow_num else []) if v not in used]
            v = r.choice(names)
            used.add(v)
            n = r.choice([None, None, 1, 2, 3, 4]) if v != 'num' else r.choice([None, 1, 2, 4])
            out.append(('var', v, n, r.random() < 0.3))
    return out


def print_piece(piece, r):
    s = ''
    for i, p in enumerate(piece):
        if p[0] == 'lit':
            s += p[1]
        else:
            _, v, n, brace = p
            nxt = piece[i + 1] if i + 1 < len(piece) else None
            # `$name` followed by a word character would change the variable name: use ${name}
            if nxt is not None and nxt[0] == 'lit' and re.match(r'\w', nxt[1]) and n is None:
                brace = True
            s += ('${%s}' % v) if brace else ('$' + v)
            if n is not None:
                s += '(%d)' % n if r.random() < 0.8 else '( %d )' % n
    return s


def gen_template(r):
    statics = []
    for _ in range(r.choice([0, 0, 1, 1, 2, 3])):
        if r.random() < 0.8:
            statics.append([('lit', ''.join(r.choice('abcdefgh') for _ in range(r.randint(1, 4))) + r.choice(['', '', '.html', '.txt']))])
        else:
            # a static name with a variable: bare or braced, with or without a width, first / last / in the middle of the name
            piece = [('var', r.choice(['jobname', 'num']), r.choice([None, None, 2]), r.random() < 0.5)]
            if r.random() < 0.7:
                piece.insert(0, ('lit', r.choice(['p', 'q', 'p-'])))
            if r.random() < 0.3:
                piece.append(('lit', r.choice(['-t', '.html', '.x'])))
            statics.append(piece)
    nalt = r.choice([1, 2, 2, 3, 3, 4])
    # a template without brackets: its last name is the wildcard (one alternative)
    implicit = r.random() < 0.12
    if implicit:
        nalt = 1
    pj = r.random() < 0.15
    alts = [gen_piece(r, exclude=('jobname',) if pj else ()) for _ in range(nalt)]
    if r.random() < 0.6:
        alts[-1] = [('lit', r.choice(['sect', 's', 'f-'])), ('var', 'num', r.choice([None, 2, 4]), False)]
    prefix = [('lit', r.choice(['', '', 'p-', 'x']))] if r.random() < 0.4 else []
    if pj:
        prefix = [('var', 'jobname', None, True), ('lit', '-')]
    suffix = [('lit', r.choice(['', '', '.html', '-z', '.h']))]
    return {'statics': statics, 'alts': alts, 'prefix': prefix, 'suffix': suffix, 'implicit': implicit}


def print_template(t, r):
    parts = [print_piece(s, r) for s in t['statics']]
    sep = lambda: r.choice([',', ', ', ' , ', ',  '])
    if t.get('implicit'):
        parts.append(print_piece(t['prefix'] + t['alts'][0] + t['suffix'], r))
        return r.choice([' ', '  ']).join(parts)
    w = print_piece(t['prefix'], r) + r.choice(['[', '[ ']) + ''
    alts = [print_piece(a, r) for a in t['alts']]
    body = alts[0]
    for a in alts[1:]:
        body += sep() + a
    w += body + r.choice([']', ' ]']) + print_piece(t['suffix'], r)
    parts.append(w)
    return r.choice([' ', '  ']).join(parts)


def gen_value(r):
    k = r.random()
    if k < 0.45:
        return ' '.join(r.choice(WORDS) for _ in range(r.randint(1, 4)))
    if k < 0.55:
        return r.choice(['', ' ', '  '])
    if k < 0.7:
        return r.choice(['a:b', 'x/y z', 'q.r', 'a  b', ' lead', 'trail ', 'é t', 'a#b c', '1.2 3', 'cost-in-$', 'US$ 5', '$x', '${id}'])
    return r.choice(['a', 'b', 'a', 'sec'])


def gen_case(r):
    t = gen_template(r)
    spec = print_template(t, r)
    bad = r.choice(BADSETS)
    sub = r.choice(['-', '-', '_', '', 'X'])
    ext = r.choice(['.html', '.html', '', '.x'])
    base = {'jobname': r.choice(['job', 'my job', 'j'])} if r.random() < 0.8 else {}
    history = []
    for _ in range(r.randint(1, 12)):
        b = {}
        for v in VARS[:-1]:
            if r.random() < 0.45:
                b[v] = gen_value(r)
        history.append(b)
    reserved = []
    if r.random() < 0.3:
        reserved = r.sample(['sect1', 'sect01' + ext, 's1' + ext, 'a' + ext, 'index' + ext, 'b' + ext, 'sect0001' + ext, 's2'], r.randint(1, 3))
    return {'t': t, 'spec': spec, 'bad': bad, 'sub': sub, 'ext': ext, 'base': base, 'history': history, 'reserved': reserved}


def exhaustive_cases():
    ts = [
        {'statics': [[('lit', 'index')]], 'alts': [[('var', 'id', None, False)], [('var', 'title', 1, False)], [('lit', 's'), ('var', 'num', 2, False)]],
         'prefix': [], 'suffix': [('lit', '')]},
        {'statics': [], 'alts': [[('var', 'title', None, False), ('lit', '-'), ('var', 'id', None, False)], [('var', 'id', None, False)]],
         'prefix': [('lit', 'p')], 'suffix': [('lit', '.h')]},
    ]
    specs = ['index [$id, $title(1), s$num(2)]', 'p[$title-$id,$id].h']
    vals = [None, 'a', 'b']
    combos = [(i, t) for i in vals for t in vals]
    for t, spec in zip(ts, specs):
        for L in range(1, 5):
            for hist in itertools.product(combos, repeat=L):
                history = []
                for (i, ti) in hist:
                    b = {}
                    if i is not None:
                        b['id'] = i
                    if ti is not None:
                        b['title'] = ti
                    history.append(b)
                yield {'t': t, 'spec': spec, 'bad': ' ', 'sub': '-', 'ext': '.html', 'base': {'jobname': 'j'}, 'history': history, 'reserved': [], 'exh': 1}


def cases(seed, tier, shard, nshards):
    n = budget(tier)['n']
    k = 0
    for c in exhaustive_cases():
        if k % nshards == shard:
            yield c
        k += 1
    for i in common.sharded(n, shard, nshards):
        yield gen_case(common.rng_for(seed, PROP, i))


# ---------------------------------------------------------------------------
# reference model (from the docstring + statement)

class Model(object):
    def __init__(self, t, bad, sub, ext, base, reserved):
        self.t, self.bad, self.sub, self.ext, self.base = t, bad, sub, ext, dict(base)
        self.taken = set(reserved)
        self.num = 1
        self.static_i = 0

    def clean(self, v):
        for ch in self.bad:
            v = v.replace(ch, self.sub)
        return v

    def has_ext(self, name):
        base = name.rsplit('/', 1)[-1]
        return '.' in base.lstrip('.')

    def form(self, piece, vars_):
        """-> (name or None if a variable is unbound, uses_num)"""
        s = ''
        uses_num = False
        for p in piece:
            if p[0] == 'lit':
                s += p[1]
                continue
            _, v, n, _b = p
            if v == 'num':
                uses_num = True
                s += str(self.num).zfill(n or 0)
                continue
            if v not in vars_:
                return None, uses_num
            val = vars_[v]
            if n is not None:
                val = ' '.join(val.split()[:n])
            s += self.clean(val)
        return s, uses_num

    def finish(self, s):
        return s if self.has_ext(s) else s + self.ext

    def request(self, bindings):
        """-> ('name', n) or ('error',)"""
        vars_ = dict(self.base)
        vars_.update(bindings)
        # static phase: the wildcard is the last entry; statics first and in order
        statics = self.t['statics']
        while self.static_i < len(statics):
            piece = statics[self.static_i]
            self.static_i += 1
            s, un = self.form(piece, vars_)
            if s is None:
                continue
            if un:
                self.num += 1
            s = self.finish(s)
            if s in self.taken:
                continue
            self.taken.add(s)
            return ('name', s)
        alts = [self.t['prefix'] + a + self.t['suffix'] for a in self.t['alts']]
        for _pass in range(200):
            progressed = False
            for a in alts:
                s, un = self.form(a, vars_)
                if s is None:
                    continue
                if un:
                    self.num += 1
                    progressed = True
                s = self.finish(s)
                if s in self.taken:
                    continue
                self.taken.add(s)
                return ('name', s)
            if not progressed:
                break
        return ('error',)


def classify(case, step, expected, observed, model_alt):
    """Mechanism key of a deviation; only features of the input + symptom."""
    return None


def run(case, st):
    from plasTeX.Filenames import Filenames
    del _events[:]
    t = case['t']
    m = Model(t, case['bad'], case['sub'], case['ext'], case['base'], case['reserved'])
    inv = dict((k, None) for k in case['reserved'])
    try:
        fn = Filenames(case['spec'], (case['bad'], case['sub']), dict(case['base']), case['ext'], invalid=inv)
    except Exception as e:
        st.violation('constructor-raises:' + type(e).__name__, case, 'Filenames(%r) raised %r' % (case['spec'], e))
        return {'nontrivial': False}
    issued = []
    seen = set(case['reserved'])
    wild = False
    dead = False
    for step, b in enumerate(case['history']):
        for k, v in b.items():
            fn.variables[k] = v
        exp = ('dead',) if dead else m.request(b)
        in_wild = m.static_i >= len(t['statics'])
        n0 = len(_events)
        try:
            got = fn()
            obs = ('name', got)
        except StepBound as e:
            st.violation('no-termination', case, 'request %d: %s' % (step, e))
            return {'nontrivial': True}
        except ValueError as e:
            obs = ('error',)
        except common.CaseTimeout:
            raise
        except Exception as e:
            obs = ('exc', type(e).__name__)
        if len(_events) == n0:
            st.notes['hook-not-fired'] += 1
        st.feature('outcome', '%s/%s' % (exp[0], obs[0]))
        where = 'request %d bindings=%r spec=%r bad=%r sub=%r ext=%r base=%r reserved=%r' % (
            step, b, case['spec'], case['bad'], case['sub'], case['ext'], case['base'], case['reserved'])
        # --- safety, independent of the model's choice -------------------
        if obs[0] == 'name':
            name = obs[1]
            if not isinstance(name, str):
                key = 'non-name-after-error' if dead else 'non-name-returned'
                st.violation(key, case, '%s: returned %r instead of a name or an error' % (where, name))
                return {'nontrivial': True}
            if name in seen:
                st.violation('duplicate-or-reserved', case, '%s: issued %r which was already issued/reserved' % (where, name))
                return {'nontrivial': True}
            seen.add(name)
            issued.append(name)
        if dead:
            continue
        # --- exact prediction --------------------------------------------
        if exp != obs:
            key = classify_dev(case, b, exp, obs, m)
            st.violation(key, case, '%s: model expects %r, generator gave %r (issued so far %r)' % (where, exp, obs, issued))
            return {'nontrivial': True}
        if obs[0] == 'error':
            dead = True
        elif in_wild:
            wild = True
    st.feature('nalts', len(t['alts']))
    st.feature('nstatics', len(t['statics']))
    return {'nontrivial': wild and bool(issued), 'sample': {'spec': case['spec'], 'history': case['history'][:3], 'issued': issued[:4]}}


def classify_dev(case, b, exp, obs, m):
    """Mechanism keys -- features of the failing request + symptom."""
    t = case['t']
    pieces = [p for a in t['alts'] for p in a] + [p for s in t['statics'] for p in s] + list(t['prefix'])
    limited = [p for p in pieces if p[0] == 'var' and p[1] != 'num' and p[2] is not None]
    vars_ = dict(case['base'])
    vars_.update(b)
    if obs[0] == 'exc' and obs[1] == 'IndexError' and any(p[1] in vars_ and not vars_[p[1]].split() for p in limited):
        return 'wordlimit-empty-value-indexerror'
    if obs[0] == 'exc' and obs[1] == 'IndexError' and any(p[1] in vars_ and not m.clean(vars_[p[1]]).split() for p in limited):
        return 'wordlimit-empty-value-indexerror'
    if obs[0] == 'exc':
        return 'unexpected-exception:' + obs[1]
    if exp[0] == 'name' and obs[0] == 'name':
        # word limit applied after forbidden-character replacement?
        if any(p[1] in vars_ and any(ch.isspace() for ch in case['bad']) and len(vars_[p[1]].split()) > p[2] for p in limited) \
                and exp[1] != obs[1] and len(obs[1]) > len(exp[1]):
            return 'wordlimit-after-charsub'
        if any(p[1] in vars_ and (m.clean(vars_[p[1]]).split() != [m.clean(w) for w in vars_[p[1]].split()]) for p in limited):
            return 'wordlimit-after-charsub'
        return 'wrong-name'
    if exp[0] == 'name' and obs[0] == 'error':
        return 'error-though-fresh-name-formable'
    if exp[0] == 'error' and obs[0] == 'name':
        return 'name-though-model-expects-error'
    return 'mismatch'
