"""Independent reference for TeX's 'mouth' (The TeXbook, ch. 7-8).

Written from the book, not from plasTeX's code.  plasTeX's documented
simplification is kept: the physical newline character plays the role of TeX's
end-of-line character (there is no separate \\endlinechar), so a "line" is the
text up to and including a newline.

tokenize(text, cat) -> list of (kind, text) with kind in
    'cs' (control sequence, text = name), 'active' (text = char),
    1,2,3,4,6,7,8,10,11,12 (character tokens of that category).
`cat` maps a character to its category code 0..15.
"""

ALLOW_EOL_ON_OTHER = True
ESC, BG, EG, MATH, ALIGN, EOL, PARAM, SUP, SUB, IGN, SPACE, LETTER, OTHER, ACTIVE, COMMENT, INVALID = range(16)

import string


def default_table():
    """plasTeX's documented default category table (Tokenizer.DEFAULT_CATEGORIES),
    copied here as a literal so that the reference does not read it from the code under test."""
    t = {'\\': 0, '{': 1, '}': 2, '$': 3, '&': 4, '\n': 5, '#': 6, '^': 7, '_': 8, '\x00': 9,
         ' ': 10, '\t': 10, '\r': 10, '\f': 10, '~': 13, '%': 14}
    for c in string.ascii_letters:
        t[c] = 11
    return t


def verbatim_table():
    """every character 'other' except the ASCII letters"""
    t = Table({})
    t.base_other = True
    for c in string.ascii_letters:
        t[c] = 11
    return t


class Table(dict):
    base_other = False

    def cat(self, ch):
        return self.get(ch, 12)

    def copy(self):
        t = Table(self)
        t.base_other = self.base_other
        return t


HEXL = '0123456789abcdef'


def tokenize(text, table, stats=None, flags=None, stream=False):
    """flags: optional set; receives the names of NF-9 situations met in the input
    (inputs outside the normal form are skipped by the caller, not judged)"""
    cat = table.cat if isinstance(table, Table) else (lambda ch: table.get(ch, 12))
    out = []
    if flags is None:
        flags = set()
    # physical lines, each including its terminating newline (if any)
    lines = text.split('\n')
    lines = [l + '\n' for l in lines[:-1]] + ([lines[-1]] if lines[-1] != '' else [])
    if stream:
        # defect-aware variant used only to *classify* a deviation: no notion of physical
        # lines; the newline is an ordinary character of its category and a comment runs
        # through the next newline
        lines = [text]
    for line in lines:
        state = 'N'
        i = 0
        n = len(line)

        def getc(i):
            """next character after ^^ reduction: (char, code, next index) or None"""
            if i >= n:
                return None
            ch = line[i]
            i += 1
            while cat(ch) == SUP and i + 1 < n and line[i] == ch:
                # ^^X with X the following character (single-character form)
                x = line[i + 1]
                o = ord(x)
                if x == '\n':
                    flags.add('hathat-before-end-of-line')
                if o >= 128:
                    flags.add('hathat-nonascii')
                if x in HEXL and i + 2 < n and line[i + 2] in HEXL:
                    flags.add('hathat-hex-form')
                ch = chr(o - 64) if o >= 64 else chr(o + 64)
                if cat(ch) in (SUP, EOL):
                    flags.add('hathat-decodes-to-sup-or-eol')
                i += 2
            if cat(ch) == EOL and ch != '\n' and not ALLOW_EOL_ON_OTHER:
                flags.add('eol-category-on-other-char')
            return ch, cat(ch), i

        # TeX removes trailing blanks of a line physically, before categories matter
        body = line[:-1] if line.endswith('\n') else line
        if body and body[-1] in ' \t' and cat(body[-1]) != SPACE:
            flags.add('trailing-blank-not-space-category')

        while True:
            r = getc(i)
            if r is None:
                break
            ch, code, i = r
            if stats is not None:
                stats.add((state, code))
            if code == ESC:
                r2 = getc(i)
                if r2 is None:
                    out.append(('cs', ''))
                    state = 'M'
                    continue
                ch2, code2, i2 = r2
                if code2 == EOL:
                    flags.add('escape-before-eol')
                if code2 == LETTER:
                    name = ch2
                    i = i2
                    while True:
                        r3 = getc(i)
                        if r3 is None or r3[1] != LETTER:
                            break
                        name += r3[0]
                        i = r3[2]
                    out.append(('cs', name))
                    state = 'S'
                else:
                    i = i2
                    out.append(('cs', ch2))
                    state = 'S' if code2 == SPACE else 'M'
            elif code in (BG, EG, MATH, ALIGN, PARAM, SUP, SUB, LETTER, OTHER):
                out.append((code, ch))
                state = 'M'
            elif code == ACTIVE:
                out.append(('active', ch))
                state = 'M'
            elif code == SPACE:
                if state == 'M':
                    out.append((SPACE, ' '))
                    state = 'S'
            elif code == EOL:
                if state == 'N':
                    out.append(('cs', 'par'))
                elif state == 'M':
                    out.append((SPACE, ' '))
                if stream:
                    # (line-less reading: "the rest of the line" ends at the next newline character, whatever its category)
                    j = line.find('\n', i)
                    i = n if j < 0 else j + 1
                    state = 'N'
                    continue
                break           # the rest of the line is discarded
            elif code == COMMENT:
                if stream:
                    j = line.find('\n', i)
                    i = n if j < 0 else j + 1
                    state = 'N'
                    continue
                break           # rest of the line, including its end, is discarded
            else:               # IGN, INVALID: dropped
                pass
    return out


def collapse_pars(toks):
    """NF-9: adjacent \\par tokens count as one (plasTeX documents 'prevent adjacent paragraphs')"""
    out = []
    for t in toks:
        if t == ('cs', 'par') and out and out[-1] == ('cs', 'par'):
            continue
        out.append(t)
    return out


class IncLexer(object):
    """Incremental version of the same rules: categories are looked up at the
    moment a character is read (so \\catcode / \\makeatletter changes made by the
    interpreter affect the rest of the input).  next() -> token or None."""

    def __init__(self, text, catfn):
        lines = text.split('\n')
        self.lines = [l + '\n' for l in lines[:-1]] + ([lines[-1]] if lines[-1] != '' else [])
        self.li = 0
        self.i = 0
        self.state = 'N'
        self.cat = catfn

    def _getc(self, i):
        line = self.lines[self.li]
        n = len(line)
        if i >= n:
            return None
        ch = line[i]
        i += 1
        cat = self.cat
        while cat(ch) == SUP and i + 1 < n and line[i] == ch:
            o = ord(line[i + 1])
            ch = chr(o - 64) if o >= 64 else chr(o + 64)
            i += 2
        return ch, cat(ch), i

    def _nextline(self):
        self.li += 1
        self.i = 0
        self.state = 'N'

    def next(self):
        while self.li < len(self.lines):
            r = self._getc(self.i)
            if r is None:
                self._nextline()
                continue
            ch, code, self.i = r
            if code == ESC:
                r2 = self._getc(self.i)
                if r2 is None:
                    self.state = 'M'
                    return ('cs', '')
                ch2, code2, i2 = r2
                if code2 == LETTER:
                    name = ch2
                    self.i = i2
                    while True:
                        r3 = self._getc(self.i)
                        if r3 is None or r3[1] != LETTER:
                            break
                        name += r3[0]
                        self.i = r3[2]
                    self.state = 'S'
                    return ('cs', name)
                self.i = i2
                self.state = 'S' if code2 == SPACE else 'M'
                return ('cs', ch2)
            if code in (BG, EG, MATH, ALIGN, PARAM, SUP, SUB, LETTER, OTHER):
                self.state = 'M'
                return (code, ch)
            if code == ACTIVE:
                self.state = 'M'
                return ('active', ch)
            if code == SPACE:
                if self.state == 'M':
                    self.state = 'S'
                    return (SPACE, ' ')
                continue
            if code == EOL:
                st = self.state
                self._nextline()
                if st == 'N':
                    return ('cs', 'par')
                if st == 'M':
                    return (SPACE, ' ')
                continue
            if code == COMMENT:
                self._nextline()
                continue
            # ignored / invalid
        return None
