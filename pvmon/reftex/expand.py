"""Independent reference for TeX's 'gullet' (macro expansion, conditionals) and a
minimal 'stomach' that only concatenates character tokens.

Written from The TeXbook ch. 20 (+ LaTeX's \\newcommand, counters and \\newif as
far as the generated languages of C02/C03/C04/C19 use them).  It is deliberately
only as large as the generated language: anything else raises OutOfModel, and a
case that raises OutOfModel is a generator bug (counted, never judged).

Tokens are the tuples of pvmon.reftex.lexer: ('cs', name) | ('active', c) | (cat, c).
"""
from fractions import Fraction
from . import lexer as L

BG, EG, MATH, ALIGN, PARAM, SUP, SUB, SPACE, LETTER, OTHER = 1, 2, 3, 4, 6, 7, 8, 10, 11, 12


class OutOfModel(Exception):
    pass


class TeXError(Exception):
    """the program is ill-formed under TeX's rules (generator bug)"""


class Macro(object):
    __slots__ = ('params', 'body', 'kind', 'nargs', 'opt')

    def __init__(self, params, body, kind='def', nargs=0, opt=None):
        self.params, self.body, self.kind, self.nargs, self.opt = params, body, kind, nargs, opt

    def same(self, other):
        return isinstance(other, Macro) and self.params == other.params and self.body == other.body and self.kind == other.kind \
            and self.nargs == other.nargs and self.opt == other.opt


class Prim(object):
    __slots__ = ('name',)

    def __init__(self, name):
        self.name = name

    def same(self, other):
        return isinstance(other, Prim) and other.name == self.name


class CountReg(object):
    """a \\newcount register (the generated programs assign it at the outer level only, so its value is kept as one global cell)"""
    __slots__ = ('name', 'cell')

    def __init__(self, name):
        self.name = name
        self.cell = [0]

    def same(self, other):
        return other is self


class DimenReg(CountReg):
    """a \\newdimen register (value in pt as a Fraction; assigned at the outer level only, like the count registers)"""
    __slots__ = ()


class CharMeaning(object):
    """\\let\\a=<character token>"""
    __slots__ = ('tok',)

    def __init__(self, tok):
        self.tok = tok

    def same(self, other):
        return isinstance(other, CharMeaning) and other.tok == self.tok


class IfSwitch(object):
    """\\newif-created conditional; the flag is interpreter-global (property C04: switches survive groups)"""
    __slots__ = ('flag',)

    def __init__(self, flag):
        self.flag = flag

    def same(self, other):
        return other is self


IF_PRIMS = ('iftrue', 'iffalse', 'ifnum', 'ifdim', 'ifodd', 'ifcase', 'ifx', 'ifdefined')
EXPANDABLE = set(IF_PRIMS) | {'else', 'or', 'fi', 'csname', 'expandafter', 'arabic', 'number', 'thectr'}
PRIMS = ['def', 'gdef', 'newcommand', 'renewcommand', 'let', 'csname', 'endcsname', 'expandafter', 'relax',
         'else', 'or', 'fi', 'newif', 'catcode', 'makeatletter', 'makeatother', 'begingroup', 'endgroup',
         'newcounter', 'setcounter', 'addtocounter', 'stepcounter', 'arabic', 'value', 'par', 'begin', 'end', 'item',
         'textbf', 'mbox', 'emph', 'marginpar', '\\', '(', ')', 'global', 'newenvironment', 'pvendenvfinish', 'ifthenelse', 'whiledo', 'newboolean', 'setboolean', 'number',
         'small', 'bfseries', 'itshape', 'large', 'newcount', 'newdimen'] + list(IF_PRIMS)

UNITS = {'pt': Fraction(1), 'pc': Fraction(12), 'in': Fraction(7227, 100), 'bp': Fraction(7227, 7200), 'cm': Fraction(7227, 254),
         'mm': Fraction(7227, 2540), 'dd': Fraction(1238, 1157), 'cc': Fraction(14856, 1157), 'sp': Fraction(1, 65536)}


class Interp(object):
    STEP_LIMIT = 200000

    def __init__(self, text, table=None, ifthen=None):
        self.cats = L.Table(L.default_table()) if table is None else table.copy()
        self.lex = L.IncLexer(text, self.cats.cat)
        self.buf = []                 # pushed-back tokens, next token is buf[-1]
        self.meaning = {}
        for p in PRIMS:
            self.meaning[p] = Prim(p)
        self.save = []                # group save stack: list of dicts  key -> old value
        self.out = []
        self.counters = {}
        self.within = {}
        self.conds = []               # open conditionals: 'if' | 'else' | ('case')
        self.steps = 0
        self.env = []                 # open environments
        self.events = []              # observable events for monitors (group depth trace, branches taken)
        self.ifthen = ifthen          # optional evaluator object for \ifthenelse / \whiledo (C19)
        self.maxdepth = 0

    # ---- token access ----------------------------------------------------
    def next_raw(self):
        self.steps += 1
        if self.steps > self.STEP_LIMIT:
            raise OutOfModel('step limit')
        if self.buf:
            return self.buf.pop()
        return self.lex.next()

    def push(self, toks):
        self.buf.extend(reversed(toks))

    def meaning_of(self, tok):
        if tok[0] == 'cs':
            return self.meaning.get(tok[1])
        if tok[0] == 'active':
            return self.meaning.get('active::' + tok[1])
        return None

    # ---- grouping ----------------------------------------------------------
    def begin_group(self, kind='{'):
        self.save.append({'#kind': kind})
        self.maxdepth = max(self.maxdepth, len(self.save))

    def end_group(self, kind='{'):
        if not self.save:
            raise TeXError('too many }')
        fr = self.save.pop()
        if fr['#kind'] != kind:
            raise TeXError('group mismatch: %s closed by %s' % (fr['#kind'], kind))
        for k, v in fr.items():
            if k == '#kind':
                continue
            if k[0] == 'm':
                if v is None:
                    self.meaning.pop(k[1:], None)
                else:
                    self.meaning[k[1:]] = v
            else:   # catcode
                ch = k[1:]
                if v == 12:
                    self.cats.pop(ch, None)
                else:
                    self.cats[ch] = v

    def define(self, name, m, glob=False):
        if glob:
            for fr in self.save:
                fr.pop('m' + name, None)
        elif self.save:
            fr = self.save[-1]
            if 'm' + name not in fr:
                fr['m' + name] = self.meaning.get(name)
        if m is None:
            self.meaning.pop(name, None)
        else:
            self.meaning[name] = m

    def set_cat(self, ch, code):
        if self.save:
            fr = self.save[-1]
            if 'c' + ch not in fr:
                fr['c' + ch] = self.cats.cat(ch)
        if code == 12:
            self.cats.pop(ch, None)
        else:
            self.cats[ch] = code

    # ---- expansion ---------------------------------------------------------
    def expandable(self, tok):
        m = self.meaning_of(tok)
        if isinstance(m, (Macro, IfSwitch)):
            return True
        if isinstance(m, Prim) and m.name in EXPANDABLE:
            return True
        return False

    def expand(self, tok):
        """expand one expandable token; the result is pushed back"""
        m = self.meaning_of(tok)
        if isinstance(m, Macro):
            self.push(self.call(m, tok))
        elif isinstance(m, IfSwitch):
            self.do_if(m.flag[0], 'newif')
        else:
            getattr(self, 'x_' + m.name)(tok)

    def get_x(self):
        """next unexpandable token"""
        while True:
            t = self.next_raw()
            if t is None:
                return None
            if t[0] in ('cs', 'active') and self.expandable(t):
                self.expand(t)
                continue
            return t

    # ---- macro calls -------------------------------------------------------
    def read_undelimited(self):
        t = self.next_raw()
        while t is not None and t[0] == SPACE:
            t = self.next_raw()
        if t is None:
            raise TeXError('file ended while scanning an argument')
        if t[0] == BG:
            return self.read_balanced()
        if t[0] == EG:
            raise TeXError('argument is }')
        return [t]

    def read_balanced(self):
        """after an opening brace: tokens up to the matching closing brace (not included)"""
        out = []
        depth = 1
        while True:
            t = self.next_raw()
            if t is None:
                raise TeXError('file ended in a group')
            if t[0] == BG:
                depth += 1
            elif t[0] == EG:
                depth -= 1
                if depth == 0:
                    return out
            out.append(t)

    def read_delimited(self, delim, keep_brace=False):
        out = []
        depth = 0
        nd = len(delim)
        while True:
            t = self.next_raw()
            if t is None:
                raise TeXError('file ended while scanning a delimited argument')
            if depth == 0 and keep_brace and t[0] == BG:
                self.push([t])
                break
            out.append(t)
            if t[0] == BG:
                depth += 1
            elif t[0] == EG:
                depth -= 1
                if depth < 0:
                    raise TeXError('unbalanced } in a delimited argument')
            if depth == 0 and not keep_brace and len(out) >= nd and out[-nd:] == delim:
                out = out[:-nd]
                break
        # strip one level of braces when the argument is exactly one group
        if len(out) >= 2 and out[0][0] == BG and out[-1][0] == EG:
            d = 0
            whole = True
            for i, t in enumerate(out):
                if t[0] == BG:
                    d += 1
                elif t[0] == EG:
                    d -= 1
                    if d == 0 and i != len(out) - 1:
                        whole = False
                        break
            if whole:
                out = out[1:-1]
        return out

    def call(self, m, tok):
        args = {}
        if m.kind == 'newcommand':
            n = m.nargs
            k = 1
            if m.opt is not None:
                t = self.next_raw()
                while t is not None and t[0] == SPACE:
                    t = self.next_raw()
                if t == (OTHER, '['):
                    args[1] = self.read_delimited([(OTHER, ']')])
                else:
                    if t is not None:
                        self.push([t])
                    args[1] = list(m.opt)
                k = 2
            for j in range(k, n + 1):
                args[j] = self.read_undelimited()
            return self.subst(m.body, args)
        for item in compile_params(m.params):
            if item[0] == 'lit':
                g = self.next_raw()
                if g != item[1]:
                    raise TeXError('use of %r does not match its definition: expected %r, got %r' % (tok, item[1], g))
            elif item[0] == 'brace':
                g = self.next_raw()
                if g is None or g[0] != BG:
                    raise TeXError('use of %r does not match its definition (#{)' % (tok,))
                self.push([g])
            else:
                _, num, delim, brace = item
                if delim:
                    args[num] = self.read_delimited(delim)
                elif brace:
                    args[num] = self.read_delimited([], keep_brace=True)
                else:
                    args[num] = self.read_undelimited()
        return self.subst(m.body, args)

    def subst(self, body, args):
        out = []
        i = 0
        n = len(body)
        while i < n:
            t = body[i]
            if t[0] == PARAM and i + 1 < n:
                nx = body[i + 1]
                if nx[0] == PARAM:
                    out.append(nx)
                    i += 2
                    continue
                if nx[0] == OTHER and nx[1].isdigit():
                    out.extend(args[int(nx[1])])
                    i += 2
                    continue
                raise TeXError('illegal parameter number in definition')
            out.append(t)
            i += 1
        return out

    # ---- expandable primitives --------------------------------------------
    def x_csname(self, tok):
        name = ''
        while True:
            t = self.get_x()
            if t is None:
                raise TeXError('missing \\endcsname')
            if t == ('cs', 'endcsname'):
                break
            if t[0] in ('cs', 'active'):
                raise TeXError('non-character token in \\csname')
            name += t[1]
        if name not in self.meaning:
            self.define(name, Prim('relax'))
        self.push([('cs', name)])

    def x_expandafter(self, tok):
        t1 = self.next_raw()
        t2 = self.next_raw()
        if t2 is not None and t2[0] in ('cs', 'active') and self.expandable(t2):
            self.expand(t2)
        elif t2 is not None:
            self.push([t2])
        self.push([t1])

    def x_arabic(self, tok):
        name = self.read_name_arg()
        self.push([(OTHER, c) for c in str(self.counters[name])])

    def x_number(self, tok):
        v = self.scan_int()
        self.push([(OTHER, c) for c in str(v)])

    def x_thectr(self, tok):
        raise OutOfModel('\\the<counter>')

    def read_name_arg(self):
        toks = self.read_undelimited()
        return ''.join(t[1] for t in toks if t[0] in (LETTER, OTHER))

    # conditionals -----------------------------------------------------------
    def x_iftrue(self, tok):
        self.do_if(True, 'iftrue')

    def x_iffalse(self, tok):
        self.do_if(False, 'iffalse')

    def x_ifnum(self, tok):
        a = self.scan_int()
        rel = self.scan_rel()
        b = self.scan_int()
        self.do_if({'<': a < b, '=': a == b, '>': a > b}[rel], 'ifnum')

    def x_ifdim(self, tok):
        a = self.scan_dimen()
        rel = self.scan_rel()
        b = self.scan_dimen()
        self.do_if({'<': a < b, '=': a == b, '>': a > b}[rel], 'ifdim')

    def x_ifodd(self, tok):
        self.do_if(self.scan_int() % 2 == 1, 'ifodd')

    def x_ifx(self, tok):
        a = self.next_raw()
        b = self.next_raw()
        ma, mb = self.meaning_of(a), self.meaning_of(b)
        if a[0] in ('cs', 'active') or b[0] in ('cs', 'active'):
            if a[0] in ('cs', 'active') and b[0] in ('cs', 'active'):
                if ma is None and mb is None:
                    r = True
                elif ma is None or mb is None:
                    r = False
                else:
                    r = ma.same(mb)
            else:
                cm, ct = (ma, b) if a[0] in ('cs', 'active') else (mb, a)
                r = isinstance(cm, CharMeaning) and cm.tok == ct
        else:
            r = (a == b)
        self.do_if(r, 'ifx')

    def x_ifdefined(self, tok):
        t = self.next_raw()
        self.do_if(self.meaning_of(t) is not None, 'ifdefined')

    def x_ifcase(self, tok):
        n = self.scan_int()
        self.events.append(('ifcase', n))
        self.conds.append('case')
        # skip n \or's
        while n != 0:
            r = self.skip_branch()
            if r == 'or':
                n -= 1
                continue
            if r == 'else':
                self.conds[-1] = 'else'
                return
            self.conds.pop()          # fi
            return

    def do_if(self, value, form):
        self.events.append((form, bool(value)))
        if value:
            self.conds.append('if')
            return
        r = self.skip_branch()
        while r == 'or':
            r = self.skip_branch()
        if r == 'else':
            self.conds.append('else')
        # fi: conditional finished

    def is_if(self, t):
        m = self.meaning_of(t)
        return isinstance(m, IfSwitch) or (isinstance(m, Prim) and m.name in IF_PRIMS)

    def skip_branch(self):
        """skip (without expansion) to the \\or / \\else / \\fi of the current level"""
        depth = 0
        while True:
            t = self.next_raw()
            if t is None:
                raise TeXError('incomplete \\if')
            if t[0] not in ('cs', 'active'):
                continue
            m = self.meaning_of(t)
            if self.is_if(t):
                depth += 1
            elif isinstance(m, Prim):
                if m.name == 'fi':
                    if depth == 0:
                        return 'fi'
                    depth -= 1
                elif depth == 0 and m.name in ('else', 'or'):
                    return m.name

    def x_else(self, tok):
        if not self.conds:
            raise TeXError('extra \\else')
        r = self.skip_branch()
        while r != 'fi':
            r = self.skip_branch()
        self.conds.pop()

    def x_or(self, tok):
        if not self.conds or self.conds[-1] != 'case':
            raise TeXError('extra \\or')
        r = self.skip_branch()
        while r != 'fi':
            r = self.skip_branch()
        self.conds.pop()

    def x_fi(self, tok):
        if not self.conds:
            raise TeXError('extra \\fi')
        self.conds.pop()

    # ---- scanning numbers ---------------------------------------------------
    def scan_signs(self):
        sign = 1
        while True:
            t = self.get_x()
            if t is None:
                return sign, None
            if t[0] == SPACE:
                continue
            if t == (OTHER, '+'):
                continue
            if t == (OTHER, '-'):
                sign = -sign
                continue
            return sign, t

    def scan_optional_space(self):
        t = self.get_x()
        if t is not None and t[0] != SPACE:
            self.push([t])

    def scan_rel(self):
        t = self.get_x()
        while t is not None and t[0] == SPACE:
            t = self.get_x()
        if t is None or t[0] != OTHER or t[1] not in '<=>':
            raise TeXError('missing relation: %r' % (t,))
        return t[1]

    def scan_internal(self, t):
        """internal integer quantities of the generated language: \\value{c}"""
        if t == ('cs', 'value'):
            return self.counters[self.read_name_arg()]
        m = self.meaning_of(t) if t[0] in ('cs', 'active') else None
        if isinstance(m, CountReg) and not isinstance(m, DimenReg):
            return m.cell[0]
        return None

    def scan_int(self):
        sign, t = self.scan_signs()
        if t is None:
            raise TeXError('missing number')
        v = self.scan_internal(t)
        if v is not None:
            return sign * v
        if t[0] == OTHER and t[1].isdigit() and t[1] in '0123456789':
            s = t[1]
            while True:
                t = self.get_x()
                if t is not None and t[0] == OTHER and t[1] in '0123456789':
                    s += t[1]
                    continue
                if t is not None and t[0] != SPACE:
                    self.push([t])
                break
            return sign * int(s)
        if t == (OTHER, "'"):
            return sign * self._radix('01234567', 8)
        if t == (OTHER, '"'):
            return sign * self._radix('0123456789ABCDEF', 16)
        if t == (OTHER, '`'):
            c = self.next_raw()
            if c[0] == 'cs':
                if len(c[1]) != 1:
                    raise TeXError('improper alphabetic constant')
                v = ord(c[1])
            else:
                v = ord(c[1])
            self.scan_optional_space()
            return sign * v
        raise TeXError('missing number, got %r' % (t,))

    def _radix(self, digits, base):
        s = ''
        while True:
            t = self.get_x()
            if t is not None and t[0] in (OTHER, LETTER) and t[1] in digits and (t[0] == OTHER or t[1] in 'ABCDEF'):
                s += t[1]
                continue
            if t is not None and t[0] != SPACE:
                self.push([t])
            break
        if not s:
            raise TeXError('missing number')
        return int(s, base)

    def scan_dimen(self):
        """-> Fraction in pt"""
        sign, t = self.scan_signs()
        if t is None:
            raise TeXError('missing dimen')
        m = self.meaning_of(t) if t[0] in ('cs', 'active') else None
        if isinstance(m, DimenReg):
            # an internal dimension: the register itself, with the signs in front of it
            return sign * m.cell[0]
        s = ''
        frac = ''
        seen_point = False
        while t is not None:
            if t[0] == OTHER and t[1] in '0123456789':
                if seen_point:
                    frac += t[1]
                else:
                    s += t[1]
            elif t[0] == OTHER and t[1] in '.,' and not seen_point:
                seen_point = True
            else:
                break
            t = self.get_x()
        if not s and not seen_point:
            raise OutOfModel('dimen without decimal constant: %r' % (t,))
        val = Fraction(int(s or '0')) + (Fraction(int(frac), 10 ** len(frac)) if frac else 0)
        # optional spaces, optional 'true', unit
        while t is not None and t[0] == SPACE:
            t = self.get_x()
        word = ''
        toks = []
        while t is not None and t[0] in (LETTER, OTHER) and t[1].isalpha() and len(word) < 2:
            word += t[1].lower()
            toks.append(t)
            t = self.get_x()
        if not word and t is not None and t[0] in ('cs', 'active') and isinstance(self.meaning_of(t), DimenReg):
            # <factor><internal dimension>
            return sign * val * self.meaning_of(t).cell[0]
        if word == 'tr':
            raise OutOfModel('true')
        if word not in UNITS:
            raise TeXError('illegal unit %r' % word)
        if t is not None and t[0] != SPACE:
            self.push([t])
        return sign * val * UNITS[word]

    # ---- execution ----------------------------------------------------------
    def run(self):
        while True:
            t = self.get_x()
            if t is None:
                break
            self.execute(t)
        if self.save:
            raise TeXError('unbalanced groups at end of input')
        if self.conds:
            raise TeXError('incomplete conditional at end of input')
        return ''.join(self.out)

    def execute(self, t):
        k = t[0]
        if k in (LETTER, OTHER):
            self.out.append(t[1])
        elif k == SPACE:
            self.out.append(' ')
        elif k == BG:
            self.begin_group('{')
        elif k == EG:
            self.end_group('{')
        elif k == MATH:
            if self.save and self.save[-1]['#kind'] == '$':
                self.end_group('$')
            else:
                self.begin_group('$')
        elif k == ALIGN:
            self.cell_boundary()
        elif k in ('cs', 'active'):
            m = self.meaning_of(t)
            if m is None:
                raise TeXError('undefined control sequence %r' % (t,))
            if isinstance(m, CharMeaning):
                self.execute(m.tok)
                return
            if isinstance(m, CountReg):
                # <register> <optional equals> <number or dimension>
                x = self.get_x()
                while x is not None and x[0] == SPACE:
                    x = self.get_x()
                if x != (OTHER, '='):
                    self.push([x] if x is not None else [])
                m.cell[0] = self.scan_dimen() if isinstance(m, DimenReg) else self.scan_int()
                return
            if not isinstance(m, Prim):
                raise OutOfModel(repr(m))
            getattr(self, 'p_' + _pyname(m.name))(t)
        else:
            raise OutOfModel('token %r in the stomach' % (t,))

    # unexpandable primitives ---------------------------------------------------
    def p_relax(self, t):
        pass

    def p_par(self, t):
        self.out.append(' ')

    def p_endcsname(self, t):
        raise TeXError('extra \\endcsname')

    def p_global(self, t):
        nxt = self.get_x()
        m = self.meaning_of(nxt)
        if not isinstance(m, Prim) or m.name not in ('def', 'let'):
            raise OutOfModel('\\global before %r' % (nxt,))
        if m.name == 'def':
            self.p_def(nxt, glob=True)
        else:
            self.p_let(nxt, glob=True)

    def p_def(self, t, glob=False):
        name = self.next_raw()
        if name[0] not in ('cs', 'active'):
            raise TeXError('missing control sequence')
        params = []
        while True:
            x = self.next_raw()
            if x is None:
                raise TeXError('file ended in a definition')
            if x[0] == BG:
                break
            if x[0] == EG:
                raise TeXError('} in parameter text')
            params.append(x)
        hash_brace = False
        if params and params[-1][0] == PARAM:
            # '#{' : parameter text ends with a lone #
            params = params[:-1] + [('#{',)]
            hash_brace = True
        body = self.read_balanced()
        # '#{': TeX matches the brace as a delimiter and re-inserts it after the replacement
        # text; here it is simply left in the input (same net effect)
        key = name[1] if name[0] == 'cs' else 'active::' + name[1]
        self.define(key, Macro(params, body), glob=glob)

    def p_gdef(self, t):
        self.p_def(t, glob=True)

    def p_newcommand(self, t, renew=False):
        x = self.next_raw()
        while x is not None and x[0] == SPACE:
            x = self.next_raw()
        star = False
        if x == (OTHER, '*'):
            x = self.next_raw()
        if x[0] == BG:
            toks = self.read_balanced()
            toks = [y for y in toks if y[0] != SPACE]
            if len(toks) != 1 or toks[0][0] != 'cs':
                raise TeXError('bad \\newcommand name')
            name = toks[0][1]
        elif x[0] == 'cs':
            name = x[1]
        else:
            raise TeXError('bad \\newcommand name')
        nargs = 0
        opt = None
        x = self._next_nonspace()
        if x == (OTHER, '['):
            s = ''.join(y[1] for y in self.read_delimited([(OTHER, ']')]) if y[0] == OTHER)
            nargs = int(s)
            x = self._next_nonspace()
            if x == (OTHER, '['):
                opt = self.read_delimited([(OTHER, ']')])
                x = self._next_nonspace()
        if x is None or x[0] != BG:
            raise OutOfModel('unbraced \\newcommand body')
        body = self.read_balanced()
        if not renew and name in self.meaning:
            raise TeXError('\\newcommand of an existing name %s' % name)
        if renew and name not in self.meaning:
            raise TeXError('\\renewcommand of an undefined name %s' % name)
        # plasTeX registers \\newcommand globally, LaTeX locally: NF-6 only generates it at depth 0
        self.define(name, Macro([], body, 'newcommand', nargs, opt), glob=False)

    def p_renewcommand(self, t):
        self.p_newcommand(t, renew=True)

    def _next_nonspace(self):
        x = self.next_raw()
        while x is not None and x[0] == SPACE:
            x = self.next_raw()
        return x

    def p_let(self, t, glob=False):
        name = self.next_raw()
        if name[0] not in ('cs', 'active'):
            raise TeXError('missing control sequence in \\let')
        x = self.next_raw()
        while x is not None and x[0] == SPACE:
            x = self.next_raw()
        if x == (OTHER, '='):
            x = self.next_raw()
            if x is not None and x[0] == SPACE:
                x = self.next_raw()
        key = name[1] if name[0] == 'cs' else 'active::' + name[1]
        if x[0] in ('cs', 'active'):
            self.define(key, self.meaning_of(x), glob=glob)
        else:
            self.define(key, CharMeaning(x), glob=glob)

    def p_newcount(self, t):
        name = self.next_raw()
        if name[0] != 'cs':
            raise TeXError('bad \\newcount')
        self.define(name[1], CountReg(name[1]), glob=True)

    def p_newdimen(self, t):
        name = self.next_raw()
        if name[0] != 'cs':
            raise TeXError('bad \\newdimen')
        reg = DimenReg(name[1])
        reg.cell[0] = Fraction(0)
        self.define(name[1], reg, glob=True)

    def p_newif(self, t):
        name = self.next_raw()
        if name[0] != 'cs' or not name[1].startswith('if'):
            raise TeXError('bad \\newif')
        base = name[1][2:]
        flag = [False]
        # plasTeX (and the statement of C04) make the switch itself and its setters global
        self.define(name[1], IfSwitch(flag), glob=True)
        self.define(base + 'true', Prim('set:1:' + name[1]), glob=True)
        self.define(base + 'false', Prim('set:0:' + name[1]), glob=True)

    def p_catcode(self, t):
        ch = self.scan_int()
        x = self.get_x()
        while x is not None and x[0] == SPACE:
            x = self.get_x()
        if x != (OTHER, '='):
            self.push([x])
        code = self.scan_int()
        self.set_cat(chr(ch), code)

    def p_makeatletter(self, t):
        self.set_cat('@', 11)

    def p_makeatother(self, t):
        self.set_cat('@', 12)

    def p_begingroup(self, t):
        self.begin_group('begingroup')

    def p_endgroup(self, t):
        self.end_group('begingroup')

    def p_newcounter(self, t):
        name = self.read_name_arg()
        self.counters[name] = 0
        self.within.setdefault(name, [])

    def _num_arg(self):
        toks = self.read_undelimited()
        # evaluate the argument as a <number> (LaTeX's \setcounter does \c@x=#2\relax)
        sub_end = ('cs', 'relax')
        self.push([sub_end])
        self.push(toks)
        v = self.scan_int()
        x = self.get_x()
        if x != sub_end:
            raise TeXError('junk after number in counter argument: %r' % (x,))
        return v

    def p_setcounter(self, t):
        name = self.read_name_arg()
        self.counters[name] = self._num_arg()

    def p_addtocounter(self, t):
        name = self.read_name_arg()
        self.counters[name] += self._num_arg()

    def p_stepcounter(self, t):
        name = self.read_name_arg()
        self.counters[name] += 1
        self.events.append(('step', name))

    def p_value(self, t):
        raise TeXError('\\value outside a number')

    # simple LaTeX structure used by the scoping programs of C04 ----------------
    def p_begin(self, t):
        name = self.read_name_arg()
        self.begin_group('env:' + name)
        self.env.append(name)
        if name in ('tabular',):
            self.read_undelimited()          # column specification
            self.begin_group('cell')
        elif isinstance(self.meaning.get(name), Macro):
            # LaTeX: \begin{name} = \begingroup \name  (user-defined \name: \newenvironment, or a \newcommand used in environment form)
            self.push([('cs', name)])

    def p_end(self, t):
        name = self.read_name_arg()
        if not self.env or self.env[-1] != name:
            raise TeXError('\\end{%s} does not match' % name)
        if name in ('tabular',):
            self.end_group('cell')
        if isinstance(self.meaning.get('end' + name), Macro):
            # \end{name} = \endname \endgroup
            self.push([('cs', 'end' + name), ('cs', 'pvendenvfinish')])
            return
        self.env.pop()
        self.end_group('env:' + name)

    def p_pvendenvfinish(self, t):
        name = self.env.pop()
        self.end_group('env:' + name)

    def p_newenvironment(self, t):
        x = self._next_nonspace()
        if x is None or x[0] != BG:
            raise TeXError('bad \\newenvironment name')
        name = ''.join(y[1] for y in self.read_balanced())
        nargs, opt = 0, None
        x = self._next_nonspace()
        if x == (OTHER, '['):
            nargs = int(''.join(y[1] for y in self.read_delimited([(OTHER, ']')]) if y[0] == OTHER))
            x = self._next_nonspace()
            if x == (OTHER, '['):
                opt = self.read_delimited([(OTHER, ']')])
                x = self._next_nonspace()
        if x is None or x[0] != BG:
            raise OutOfModel('unbraced \\newenvironment begin part')
        b = self.read_balanced()
        x = self._next_nonspace()
        if x is None or x[0] != BG:
            raise OutOfModel('unbraced \\newenvironment end part')
        e = self.read_balanced()
        self.define(name, Macro([], b, 'newcommand', nargs, opt), glob=False)
        self.define('end' + name, Macro([], e, 'newcommand', 0, None), glob=False)

    def cell_boundary(self):
        if not self.env or self.env[-1] != 'tabular':
            raise TeXError('misplaced alignment tab')
        self.end_group('cell')
        self.begin_group('cell')
        self.out.append(' ')

    def p_backslash(self, t):
        if self.env and self.env[-1] == 'tabular':
            self.end_group('cell')
            self.begin_group('cell')
        self.out.append(' ')

    def p_lparen(self, t):
        self.begin_group('$')

    def p_rparen(self, t):
        self.end_group('$')

    def p_item(self, t):
        self.out.append(' ')

    def _boxed(self, t):
        # argument processed inside a group (\\textbf{..}, \\mbox{..}, \\emph{..})
        x = self._next_nonspace()
        if x is None or x[0] != BG:
            raise OutOfModel('unbraced argument of %r' % (t,))
        body = self.read_balanced()
        self.begin_group('arg')
        self.push([('cs', '@endarg')])
        self.push(body)
        if '@endarg' not in self.meaning:
            self.meaning['@endarg'] = Prim('@endarg')

    p_textbf = p_mbox = p_emph = _boxed

    def p_marginpar(self, t):
        # \marginpar[left]{right}: two arguments, each processed in a group of its own, in the order written
        x = self._next_nonspace()
        opt = None
        if x is not None and x[0] == OTHER and x[1] == '[':
            opt, depth = [], 0
            while True:
                y = self.next_raw()
                if y is None:
                    raise TeXError('file ended in an optional argument')
                if y[0] == BG:
                    depth += 1
                elif y[0] == EG:
                    depth -= 1
                elif depth == 0 and y[0] == OTHER and y[1] == ']':
                    break
                opt.append(y)
            x = self._next_nonspace()
        if x is None or x[0] != BG:
            raise OutOfModel('unbraced argument of %r' % (t,))
        body = self.read_balanced()
        if '@endarg' not in self.meaning:
            self.meaning['@endarg'] = Prim('@endarg')
        if '@beginarg' not in self.meaning:
            self.meaning['@beginarg'] = Prim('@beginarg')
        seq = []
        if opt is not None:
            seq += [('cs', '@beginarg')] + opt + [('cs', '@endarg')]
        seq += [('cs', '@beginarg')] + body + [('cs', '@endarg')]
        self.push(seq)

    def p__beginarg(self, t):
        self.begin_group('arg')

    def _declaration(self, t):
        # font and size declarations: no text, no group, in force until the enclosing group ends
        pass

    p_small = p_bfseries = p_itshape = p_large = _declaration

    def p__endarg(self, t):
        self.end_group('arg')

    def __getattr__(self, name):
        if name.startswith('p_set_'):
            raise AttributeError(name)
        raise AttributeError(name)


def _pyname(n):
    if n == '\\':
        return 'backslash'
    if n == '(':
        return 'lparen'
    if n == ')':
        return 'rparen'
    if n == '@endarg':
        return '_endarg'
    if n == '@beginarg':
        return '_beginarg'
    if n.startswith('set:'):
        return 'setswitch'
    return n


def _setswitch(self, t):
    m = self.meaning_of(t)
    _, v, ifname = m.name.split(':', 2)
    self.meaning[ifname].flag[0] = (v == '1')
    self.events.append(('switch', ifname, v == '1'))


Interp.p_setswitch = _setswitch


def compile_params(params):
    """parameter text -> [('lit', tok) | ('arg', n, delimiter tokens, delimited-by-brace) | ('brace',)]"""
    out = []
    i = 0
    n = len(params)
    while i < n:
        t = params[i]
        if t == ('#{',):
            out.append(('brace',))
            i += 1
        elif t[0] == PARAM:
            if i + 1 >= n or params[i + 1][0] != OTHER or not params[i + 1][1].isdigit():
                raise TeXError('bad parameter text')
            num = int(params[i + 1][1])
            i += 2
            delim = []
            while i < n and params[i][0] != PARAM and params[i] != ('#{',):
                delim.append(params[i])
                i += 1
            brace = False
            if not delim and i < n and params[i] == ('#{',):
                brace = True
            out.append(('arg', num, delim, brace))
        else:
            out.append(('lit', t))
            i += 1
    return out


def _count_trailing_params(params):
    n = 0
    for t in reversed(params):
        if t[0] == PARAM:
            n += 1
        else:
            break
    return n


def run(text, table=None):
    it = Interp(text, table)
    out = it.run()
    return out, it
