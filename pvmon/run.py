"""Driver: shards a check over worker subprocesses, merges their summaries,
matches violations against known_findings.json, writes evidence + replays,
prints the verdict lines and returns the exit code.

exit 0 held (possibly with KNOWN-FINDING lines) / 1 violated / 2 inconclusive
"""
import sys, os, json, subprocess, time, hashlib, argparse, tempfile, shutil, importlib, collections

from . import common

VERIF = common.VERIF
PY = sys.executable


def known_findings(prop):
    path = os.path.join(VERIF, 'known_findings.json')
    try:
        data = json.load(open(path))
    except FileNotFoundError:
        return {}
    return {e['key']: e for e in data.get('known', []) if e.get('property') == prop}


def write_replay(prop, key, wit):
    d = os.path.join(VERIF, 'replays', prop)
    os.makedirs(d, exist_ok=True)
    blob = json.dumps({'property': prop, 'key': key, 'case': wit['case'], 'msg': wit['msg']},
                      indent=1, default=repr, sort_keys=True)
    name = hashlib.sha1(blob.encode('utf-8', 'surrogatepass')).hexdigest()[:12] + '.json'
    path = os.path.join(d, name)
    with open(path, 'w') as f:
        f.write(blob)
    return os.path.relpath(path, VERIF)


def replay(prop, path):
    common.quiet_logging()
    mod = importlib.import_module('pvmon.props.' + prop.lower())
    data = json.load(open(path))
    st = common.Stats()
    mod.setup(st)
    res = mod.run(data['case'], st)
    print('case:', json.dumps(data['case'], default=repr)[:3000])
    print('recorded key:', data.get('key'))
    if not st.viol:
        print('replay: no violation observed')
        return 0
    for k, v in st.viol.items():
        print('replay: violation key=%s' % k)
        for w in v['witnesses']:
            print('   ', w['msg'])
    known = known_findings(prop)
    return 1 if any(k not in known for k in st.viol) else 0


def main(argv=None):
    ap = argparse.ArgumentParser()
    ap.add_argument('prop')
    ap.add_argument('--tier', default=os.environ.get('VERIF_TIER') or 'quick', choices=['quick', 'thorough'])
    ap.add_argument('--seed', type=int, default=int(os.environ.get('VERIF_SEED') or 0))
    ap.add_argument('--jobs', type=int, default=int(os.environ.get('PVMON_JOBS') or min(16, os.cpu_count() or 1)))
    ap.add_argument('--replay')
    ap.add_argument('--no-evidence', action='store_true')
    a = ap.parse_args(argv)
    prop = a.prop.upper()
    os.chdir(VERIF)
    if a.replay:
        return replay(prop, a.replay)
    mod = importlib.import_module('pvmon.props.' + prop.lower())
    b = mod.budget(a.tier)
    nshards = max(1, min(a.jobs, b.get('max_shards', a.jobs)))
    t0 = time.time()
    tmp = tempfile.mkdtemp(prefix='pvmon-%s-' % prop)
    env = dict(os.environ)
    env.update(PYTHONHASHSEED='0', PYTHONDONTWRITEBYTECODE='1', PYTHONPATH=VERIF + os.pathsep + env.get('PYTHONPATH', ''),
               TMPDIR=tmp, PVMON_TMP=tmp)
    env.pop('PLASTEX_VERIF', None)
    procs = []
    for s in range(nshards):
        out = os.path.join(tmp, 'shard%d.json' % s)
        log = open(os.path.join(tmp, 'shard%d.log' % s), 'w')
        p = subprocess.Popen([PY, '-X', 'faulthandler', '-m', 'pvmon.worker', prop, str(s), str(nshards), str(a.seed), a.tier, out],
                             cwd=tmp, env=env, stdout=log, stderr=subprocess.STDOUT)
        procs.append((p, out, log))
    watchdog = b.get('watchdog_s', 900 if a.tier == 'quick' else 7200)
    inconclusive = []
    merged = common.Stats()
    feats = collections.defaultdict(set)
    hashes = set()
    reach = {}
    watched = {}
    detail = {}
    wall_workers = []
    for s, (p, out, log) in enumerate(procs):
        try:
            rc = p.wait(timeout=max(1, watchdog - (time.time() - t0)))
        except subprocess.TimeoutExpired:
            p.kill()
            p.wait()
            inconclusive.append('worker %d hit the wall-clock watchdog (%ds)' % (s, watchdog))
            continue
        finally:
            log.close()
        if rc != 0 or not os.path.exists(out):
            tail = open(os.path.join(tmp, 'shard%d.log' % s)).read()[-2000:]
            inconclusive.append('worker %d exited rc=%s without a summary: %s' % (s, rc, tail))
            continue
        d = json.load(open(out))
        merged.evaluations += d['evaluations']
        merged.outcomes.update(d['outcomes'])
        merged.hooks.update(d['hooks'])
        merged.notes.update(d['notes'])
        merged.counters.update(d['counters'])
        for k, v in d['features'].items():
            feats[k].update(v)
        for smp in d['samples']:
            if len(merged.samples) < 5:
                merged.samples.append(smp)
        for k, v in d['viol'].items():
            m = merged.viol.setdefault(k, {'n': 0, 'witnesses': []})
            m['n'] += v['n']
            m['witnesses'].extend(v['witnesses'][:max(0, 3 - len(m['witnesses']))])
        for k, (seen, tot) in d['reach'].items():
            r = reach.setdefault(k, [0, tot])
            r[0] = max(r[0], seen)
        for k, w in d.get('reach_detail', {}).items():
            dd = detail.setdefault(k, {'file': w['file'], 'present': set(), 'seen': set()})
            dd['present'].update(w['present'])
            dd['seen'].update(w['seen'])
        for k, w in d.get('watched', {}).items():
            ww = watched.setdefault(k, {'want': set(), 'seen': set()})
            ww['want'].update(w['want'])
            ww['seen'].update(w['seen'])
        wall_workers.append(round(d['wall_s'], 2))
        hb = open(out + '.hashes', 'rb').read()
        for i in range(0, len(hb), 8):
            hashes.add(hb[i:i + 8])
    shutil.rmtree(tmp, ignore_errors=True)

    # ---- verdict ---------------------------------------------------------
    known = known_findings(prop)
    lines = []
    nviol = 0
    seen_known = []
    for key in sorted(merged.viol):
        v = merged.viol[key]
        if key in known:
            seen_known.append(key)
            path = write_replay(prop, key, v['witnesses'][0])
            lines.append('KNOWN-FINDING: property=%s %s [key=%s, %d case(s), e.g. %s]' % (prop, known[key]['what'], key, v['n'], path))
        else:
            nviol += 1
            path = write_replay(prop, key, v['witnesses'][0])
            lines.append('VIOLATION property=%s replay=%s key=%s cases=%d :: %s' % (prop, path, key, v['n'], v['witnesses'][0]['msg'][:600].replace('\n', ' | ')))
    if merged.outcomes.get('harness_error'):
        inconclusive.append('%d harness errors: %s' % (merged.outcomes['harness_error'],
                            '; '.join(k for k in merged.notes if k.startswith('harness-error'))[:1500]))
    to = merged.outcomes.get('timeout', 0)
    if to and not getattr(mod, 'TIMEOUT_IS_NOTE', False):
        inconclusive.append('%d cases hit the per-case wall-clock alarm' % to)
    if merged.evaluations == 0:
        inconclusive.append('no case was executed')
    for h in getattr(mod, 'DECIDING_HOOKS', []):
        if merged.hooks.get(h, 0) == 0:
            inconclusive.append('deciding hook %s was never evaluated' % h)
    for r in getattr(mod, 'DECIDING_REACH', []):
        if reach.get(r, [0, 0])[0] == 0:
            inconclusive.append('anchored function %s was never entered' % r)
    for c, minimum in getattr(mod, 'DECIDING_COUNTERS', {}).items():
        if merged.counters.get(c, 0) < minimum:
            inconclusive.append('monitor counter %s=%d < %d' % (c, merged.counters.get(c, 0), minimum))
    for k, w in sorted(watched.items()):
        missing = sorted(w['want'] - w['seen'])
        if not w['want']:
            inconclusive.append('no watched statement found in %s' % k)
        elif missing:
            inconclusive.append('watched statements of %s never executed: lines %s' % (k, missing))
    if len(hashes) < 2:
        inconclusive.append('fewer than 2 distinct non-trivial cases')

    wall = time.time() - t0
    ev = {
        'property_id': prop, 'tier': a.tier, 'seed': a.seed, 'level': getattr(mod, 'LEVEL', 'exploration'),
        'coverage': {
            'evaluations': merged.evaluations,
            'distinct_nontrivial': len(hashes),
            'rule': mod.RULE,
            'samples': merged.samples or ['(none)'],
            'outcomes': dict(merged.outcomes),
            'hook_events': dict(merged.hooks),
            'monitor_counters': dict(merged.counters),
            'distinct_states': {k: len(v) for k, v in feats.items()},
            'states_observed': {k: sorted(v)[:60] for k, v in feats.items()},
            'anchor_reach': reach,
            'anchor_lines_not_executed': {k: sorted(w['present'] - w['seen']) for k, w in sorted(detail.items()) if w['present'] - w['seen']},
            'watched_statements': {k: {'want': sorted(w['want']), 'executed': sorted(w['seen'])} for k, w in watched.items()},
            'known_findings_seen': seen_known,
            'notes': {k[:300]: n for k, n in list(merged.notes.items())[:40]},
            'shards': nshards, 'worker_wall_s': wall_workers,
            'verdict': 'violated' if nviol else ('inconclusive' if inconclusive else 'held-on-observed'),
            'inconclusive_reasons': inconclusive,
        },
        'assumptions': getattr(mod, 'ASSUMPTIONS', []),
        'wall_s': round(wall, 2),
        'violations': nviol,
    }
    if hasattr(mod, 'evidence_extra'):
        ev['coverage'].update(mod.evidence_extra(merged, feats, a.tier))
    if not a.no_evidence:
        os.makedirs(os.path.join(VERIF, 'evidence'), exist_ok=True)
        with open(os.path.join(VERIF, 'evidence', prop + '.json'), 'w') as f:
            json.dump(ev, f, indent=1, default=repr, sort_keys=True)
    for l in lines:
        print(l)
    print('%s tier=%s seed=%d: %d cases, %d distinct non-trivial, outcomes=%s, hooks=%d events, %.1fs' % (
        prop, a.tier, a.seed, merged.evaluations, len(hashes), dict(merged.outcomes), sum(merged.hooks.values()), wall))
    if nviol:
        return 1
    if inconclusive:
        for r in inconclusive:
            print('INCONCLUSIVE property=%s reason=%s' % (prop, r[:1500]))
        return 2
    print('HELD property=%s on everything observed' % prop)
    return 0


if __name__ == '__main__':
    sys.exit(main())
