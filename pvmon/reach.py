"""Line-reach recorder for anchored functions, and a backward-jump counter used
as a logical step bound (termination decided on steps, not wall-clock).

sys.monitoring (3.12), tool id 3.  LINE events are enabled only on the code
objects given; each callback records the line and returns DISABLE so the cost
is one callback per distinct line per worker."""
import sys, dis

TOOL = 3
_mon = getattr(sys, 'monitoring', None)


class Reach(object):
    def __init__(self):
        self.codes = {}      # code -> name
        self.lines = {}      # name -> set(lines seen)
        self.total = {}      # name -> number of lines present
        self.on = False

    def add(self, name, func):
        func = getattr(func, '__pvmon_orig__', func)
        func = getattr(func, '__func__', func)
        if isinstance(func, property):
            func = func.fget
        code = getattr(func, '__code__', None)
        if code is None or _mon is None:
            return False
        self.codes[code] = name
        self.lines.setdefault(name, set())
        present = set(l for (_, _, l) in code.co_lines() if l is not None)
        present.discard(code.co_firstlineno)
        self.total[name] = self.total.get(name, 0) + len(present)
        return True

    def start(self):
        if _mon is None or self.on or not self.codes:
            return
        try:
            _mon.use_tool_id(TOOL, 'pvmon-reach')
        except ValueError:
            pass
        _mon.register_callback(TOOL, _mon.events.LINE, self._line)
        for code in self.codes:
            _mon.set_local_events(TOOL, code, _mon.events.LINE)
        self.on = True

    def _line(self, code, line):
        name = self.codes.get(code)
        if name is not None:
            self.lines[name].add(line)
        return _mon.DISABLE

    def stop(self):
        if not self.on:
            return
        for code in self.codes:
            _mon.set_local_events(TOOL, code, 0)
        _mon.register_callback(TOOL, _mon.events.LINE, None)
        try:
            _mon.free_tool_id(TOOL)
        except Exception:
            pass
        self.on = False

    def report(self):
        return {n: [len(self.lines[n]), self.total[n]] for n in self.lines}

    def detail(self):
        """-> {anchor name: {'file': path, 'present': [lines], 'seen': [lines]}}"""
        out = {}
        for code, name in self.codes.items():
            present = set(l for (_, _, l) in code.co_lines() if l is not None)
            present.discard(code.co_firstlineno)
            d = out.setdefault(name, {'file': code.co_filename, 'present': set(), 'seen': set()})
            d['present'] |= present
            d['seen'] |= (self.lines.get(name, set()) & present)
        return {n: {'file': d['file'], 'present': sorted(d['present']), 'seen': sorted(d['seen'])} for n, d in out.items()}

    def watched(self, watch):
        """watch: {anchor name: regex}.  -> {anchor name: {'want': [line numbers whose source matches], 'seen': [those executed]}}
        (the deciding statements of a function -- e.g. every place a switch is turned back on -- must be executed by the workload)"""
        import inspect, re
        out = {}
        by_name = {}
        for code, name in self.codes.items():
            by_name.setdefault(name, []).append(code)
        for name, rx in watch.items():
            want = set()
            for code in by_name.get(name, []):
                try:
                    src, first = inspect.getsourcelines(code)
                except Exception:
                    continue
                present = set(l for (_, _, l) in code.co_lines() if l is not None)
                for i, line in enumerate(src):
                    if re.search(rx, line) and (first + i) in present:
                        want.add(first + i)
            out[name] = {'want': sorted(want), 'seen': sorted(want & self.lines.get(name, set()))}
        return out


class StepBound(Exception):
    pass


class JumpCounter(object):
    """Counts JUMP/BRANCH-free 'backward jump' events in given code objects.
    Uses tool id 4.  When the count exceeds `limit` the callback raises
    StepBound inside the monitored code (logical non-termination verdict)."""
    TOOL = 4

    def __init__(self, funcs):
        self.codes = []
        for f in funcs:
            f = getattr(f, '__pvmon_orig__', f)
            f = getattr(f, '__func__', f)
            c = getattr(f, '__code__', None)
            if c is not None:
                self.codes.append(c)
        self.count = 0
        self.limit = 1 << 60
        self.maxseen = 0
        self.on = False

    def start(self):
        if _mon is None or self.on:
            return
        try:
            _mon.use_tool_id(self.TOOL, 'pvmon-jumps')
        except ValueError:
            pass
        _mon.register_callback(self.TOOL, _mon.events.JUMP, self._jump)
        for c in self.codes:
            _mon.set_local_events(self.TOOL, c, _mon.events.JUMP)
        self.on = True

    def reset(self, limit):
        self.maxseen = max(self.maxseen, self.count)
        self.count = 0
        self.limit = limit

    def _jump(self, code, src, dst):
        if dst <= src:
            self.count += 1
            if self.count > self.limit:
                self.limit = 1 << 60
                raise StepBound('more than %d backward jumps' % self.count)

    def stop(self):
        if not self.on:
            return
        for c in self.codes:
            _mon.set_local_events(self.TOOL, c, 0)
        _mon.register_callback(self.TOOL, _mon.events.JUMP, None)
        try:
            _mon.free_tool_id(self.TOOL)
        except Exception:
            pass
        self.on = False
