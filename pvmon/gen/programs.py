"""Generator of macro programs in the normal form NF-1..NF-8 of DESIGN.md (C02),
with optional conditional blocks (C03) supplied by pvmon.gen.conds.

The generator only has to produce *valid* programs: the oracle is the reference
expander.  It tracks scopes, signatures and ranks so that (NF-6) a macro is used
only where it is defined and (NF-2) the call graph is acyclic whatever is
redefined later.
"""

MARK = 'ABCDEFGHJKLMNPQRSTUVWXYabcdefghjkmnpqrstuvwxy0123456789'
DELIMS = ['.', ',', ';', ':', '|', '/', '!', ']', '\\zqend', '\\zqstop']


class Sig(object):
    def __init__(self, name, kind, rank, scope_depth, items=None, nargs=0, opt=None, glob=False, plain=None, defines=None):
        self.name, self.kind, self.rank, self.depth = name, kind, rank, scope_depth
        self.items = items or []      # for def: ('lit', text) | ('u', n) | ('d', n, delimtext) | ('b', n) (delimited by brace) | ('brace',)
        self.nargs, self.opt, self.glob = nargs, opt, glob
        self.plain = plain            # plain body text for parameterless macros (used for \ifx / \expandafter)
        self.defines = defines        # (inner name, inner nparams) for definer macros
        self.ptext = None

    def undelimited_only(self):
        if self.kind == 'newcommand':
            return self.opt is None
        return all(i[0] == 'u' for i in self.items)


class ProgGen(object):
    def __init__(self, r, cond_hook=None, max_items=12):
        self.r = r
        self.rank = 0
        self.scopes = [{}]          # name -> Sig, innermost last
        self.glob_names = {}
        self.uid = 0
        self.cond_hook = cond_hook  # callable(gen, depth) -> text (C03)
        self.features = set()
        self.calls = 0
        self.max_items = max_items
        self.at_depth = 0           # makeatletter regions
        self.counters = []

    # -- helpers ------------------------------------------------------------
    def marker(self):
        r = self.r
        return ''.join(r.choice(MARK) for _ in range(r.choice([1, 1, 2])))

    def fresh_name(self):
        self.uid += 1
        n = self.uid
        s = ''
        while True:
            s = 'abcdefghjkmnpqrstuvwxyz'[n % 23] + s
            n //= 23
            if n == 0:
                break
        return 'zq' + s

    def visible(self):
        out = {}
        for sc in self.scopes:
            out.update(sc)
        return out

    def lookup(self, name):
        for sc in reversed(self.scopes):
            if name in sc:
                return sc[name]
        return None

    def cs(self, name, nxt=''):
        """print a control word followed by `nxt`, inserting a blank when needed"""
        if nxt[:1].isalpha() or (nxt[:1] == '@' and self.at_depth):
            return '\\' + name + ' ' + nxt
        if self.r.random() < 0.15:
            return '\\' + name + ' ' + nxt
        return '\\' + name + nxt

    # -- definitions ----------------------------------------------------------
    def callable_from(self, glob):
        """macros a new body may call: they must outlive the macro being defined (NF-6) and have lower rank (NF-2)"""
        vis = self.visible()
        out = []
        for s in vis.values():
            if s.defines is not None:
                continue
            if glob and not (s.glob or s.depth == 0):
                continue
            out.append(s)
        return out

    def gen_body(self, nparams, callees, allow_calls=True, depth=0):
        r = self.r
        parts = []
        used = set()
        if r.random() < 0.06:
            # an empty replacement text (a macro that only gobbles its arguments), or one that is a single blank
            self.features.add('empty-body')
            return r.choice(['', '', ' '])
        for _ in range(r.randint(1, 5)):
            k = r.random()
            if k < 0.45 or (not nparams and k < 0.6):
                parts.append(self.marker())
            elif k < 0.8 and nparams:
                n = r.randint(1, nparams)
                used.add(n)
                parts.append('#%d' % n)
            elif allow_calls and callees and depth < 2:
                c = r.choice(callees)
                parts.append(self.gen_call(c, nparams=nparams, depth=depth + 1, callees=[x for x in callees if x.rank < c.rank]))
            elif k < 0.9:
                parts.append('{' + self.marker() + '}')
            else:
                parts.append(' ')
        return ''.join(parts)

    def gen_def(self):
        """one definition at the current scope; returns its text"""
        r = self.r
        depth = len(self.scopes) - 1
        k = r.random()
        vis = self.visible()
        redefinable = [s for s in vis.values() if s.kind in ('def', 'newcommand') and s.defines is None]
        if k < 0.2 and depth == 0:
            return self.gen_newcommand(redefinable)
        if k < 0.3 and any(x.defines is None for x in vis.values()):
            return self.gen_let()
        if k < 0.36:
            return self.gen_definer()
        glob = r.random() < 0.2
        # redefine an existing name or create a new one
        redef_defs = [s for s in redefinable if s.kind == 'def' and s.ptext is not None]
        # \\def over a parameterless \\newcommand
        for s_ in redefinable:
            if s_.kind == 'newcommand' and s_.nargs == 0 and getattr(s_, 'ptext', None) == 'nc':
                redef_defs.append(s_)
        if redef_defs and r.random() < 0.25:
            # a redefinition keeps the parameter text, so bodies written against the old
            # definition still call it conformingly
            old = r.choice(redef_defs)
            name, rank = old.name, old.rank
            if old.kind == 'newcommand':
                items, ptext = [], ''
                self.features.add('def-over-newcommand')
            else:
                items, ptext = old.items, old.ptext
            nparams = len([i for i in items if i[0] in ('u', 'd', 'b')])
            self.features.add('redefine')
        else:
            name = self.fresh_name()
            self.rank += 1
            rank = self.rank
            items, ptext, nparams = self.gen_pattern()
        callees = [s for s in self.callable_from(glob) if s.rank < rank]
        body = self.gen_body(nparams, callees)
        plain = body if (nparams == 0 and body.isalnum()) else None
        sig = Sig(name, 'def', rank, 0 if glob else depth, items=items, glob=glob, plain=plain)
        sig.ptext = ptext
        self.register(sig, glob)
        cmd = 'gdef' if glob else 'def'
        if glob and r.random() < 0.4:
            cmd = 'global\\def'          # the prefix form of the same thing
            self.features.add('global-prefix-def')
        if r.random() < 0.12:
            self.features.add('csname-def')
            if cmd.startswith('global'):
                return '\\global\\expandafter\\def\\csname %s\\endcsname%s{%s}' % (name, ptext, body)
            return '\\expandafter\\%s\\csname %s\\endcsname%s{%s}' % (cmd, name, ptext, body)
        return '\\%s\\%s%s{%s}' % (cmd, name, ptext, body)

    def register(self, sig, glob):
        if glob:
            # a global definition replaces the meaning at every level
            for sc in self.scopes:
                sc.pop(sig.name, None)
            self.scopes[0][sig.name] = sig
        else:
            self.scopes[-1][sig.name] = sig

    def gen_pattern(self):
        r = self.r
        nparams = r.choice([0, 0, 1, 1, 1, 2, 2, 3, 4, 9])
        items = []
        ptext = ''
        if nparams and r.random() < 0.2:
            lit = r.choice(['[', '(', '.', '=', '<'])
            items.append(('lit', lit))
            ptext += lit
            self.features.add('leading-literal')
        for n in range(1, nparams + 1):
            k = r.random()
            last = (n == nparams)
            if k < 0.55:
                items.append(('u', n))
                ptext += '#%d' % n
            elif last and k < 0.65:
                items.append(('b', n))
                ptext += '#%d#' % n
                self.features.add('hash-brace')
            elif k < 0.72:
                # a blank as delimiter: the argument is everything up to the next blank (at brace level 0)
                items.append(('d', n, ' '))
                ptext += '#%d ' % n
                self.features.add('blank-delimited')
            else:
                d = r.choice(DELIMS)
                if r.random() < 0.2:
                    d2 = r.choice([x for x in DELIMS if x != d and not x.startswith('\\')])
                    d = d + d2 if not d.startswith('\\') else d + d2
                    self.features.add('two-token-delimiter')
                items.append(('d', n, d))
                ptext += '#%d%s' % (n, d)
                self.features.add('delimited')
        return items, ptext, nparams

    def gen_newcommand(self, redefinable):
        r = self.r
        renew = False
        cands = [s for s in redefinable if s.kind == 'newcommand' and s.ptext == 'nc']
        # \\renewcommand over a parameterless \\def (the kinds may be mixed as long as calls written against the old meaning stay conforming)
        cross = [s for s in redefinable if s.kind == 'def' and s.ptext == '' and not s.items and s.depth == 0]
        nargs = r.choice([0, 1, 1, 2, 2, 3, 5, 9])
        opt = None
        if nargs and r.random() < 0.45:
            opt = self.marker()
            self.features.add('optional-default')
            if r.random() < 0.2:
                opt = ''
                self.features.add('optional-default-empty')
            elif r.random() < 0.15:
                opt = self.braced_edges()
        if cross and r.random() < 0.15:
            old = r.choice(cross)
            name, rank = old.name, old.rank
            nargs, opt = 0, None
            renew = True
            self.features.add('renewcommand-over-def')
        elif cands and r.random() < 0.3:
            old = r.choice(cands)
            name, rank = old.name, old.rank
            nargs = old.nargs
            opt = (self.marker() if r.random() < 0.8 else '') if old.opt is not None else None
            renew = True
            self.features.add('renewcommand')
        else:
            name = self.fresh_name()
            self.rank += 1
            rank = self.rank
        callees = [s for s in self.callable_from(True) if s.rank < rank]
        body = self.gen_body(nargs, callees)
        sig = Sig(name, 'newcommand', rank, 0, nargs=nargs, opt=opt, glob=True,
                  plain=body if (nargs == 0 and body.isalnum()) else None)
        sig.ptext = 'nc'
        self.register(sig, True)
        cmd = 'renewcommand' if renew else 'newcommand'
        head = '\\%s{\\%s}' % (cmd, name) if r.random() < 0.7 else '\\%s\\%s' % (cmd, name)
        if nargs:
            head += '[%d]' % nargs
        if opt is not None:
            head += '[%s]' % opt
        return head + '{%s}' % body

    def braced_edges(self):
        """a bracket argument that starts with one brace group and ends with another (only braces around the whole value are stripped)"""
        r = self.r
        self.features.add('optional-value-with-groups-at-both-ends')
        k = r.random()
        if k < 0.4:
            return '{%s}%s{%s}' % (self.marker(), self.marker(), self.marker())
        if k < 0.7:
            return '{%s}{%s}' % (self.marker(), self.marker())
        if k < 0.85:
            return '{%s}' % self.marker()
        return '{{%s}%s}' % (self.marker(), self.marker())

    def gen_let(self):
        r = self.r
        vis = [s for s in self.visible().values() if s.defines is None]
        if r.random() < 0.3:
            # re-point a name that has just been used: use, \let, use again -- nothing in between
            pairs = [(d, s_) for d in vis for s_ in vis if d is not s_ and d.kind == 'def' and s_.kind == 'def' and not d.items and not s_.items
                     and d.ptext == '' and s_.ptext == '' and s_.rank < d.rank and d.depth == len(self.scopes) - 1]
            if pairs:
                d, s_ = r.choice(pairs)
                sig = Sig(d.name, 'def', d.rank, len(self.scopes) - 1, items=[], glob=False, plain=s_.plain)
                sig.ptext = ''
                self.register(sig, False)
                self.features.add('let-over-used-name')
                self.calls += 2
                return '\\%s \\let\\%s%s\\%s \\%s ' % (d.name, d.name, r.choice(['=', '', ' = ']), s_.name, d.name)
        src = r.choice(vis)
        depth = len(self.scopes) - 1
        self.rank += 1
        name = self.fresh_name()
        # (a global alias outlives the group: only of macros whose body calls nothing that is local to it)
        glob = depth > 0 and r.random() < 0.3 and (src.plain is not None or (getattr(src, 'glob', False) and src.kind == 'def' and src.plain is not None))
        sig = Sig(name, src.kind, self.rank, 0 if glob else depth, items=src.items, nargs=src.nargs, opt=src.opt, glob=glob, plain=src.plain)
        if src.kind == 'def' and src.defines is None:
            # (an alias of a \def macro can later be given a definition of its own with the same parameter text: \let, then \def)
            sig.ptext = getattr(src, 'ptext', None)
        self.register(sig, glob)
        self.features.add('global-let' if glob else 'let')
        pre = ''
        if glob and r.random() < 0.4:
            # the same pair first as a local alias in the open group: the global one must still reach the outermost level
            pre = '\\let\\%s\\%s ' % (name, src.name)
            self.features.add('global-let-after-equal-local-let')
        return pre + ('\\global' if glob else '') + '\\let\\%s%s\\%s' % (name, r.choice(['=', '', ' = ', '= ']), src.name) + ' '

    def gen_definer(self):
        """\\def\\a#1{\\def\\b##1{..#1..##1..}}  (NF-7: ## only inside a body that defines a macro)"""
        r = self.r
        depth = len(self.scopes) - 1
        outer = self.fresh_name()
        inner = self.fresh_name()
        self.rank += 2
        no = r.choice([0, 1, 2])
        ni = r.choice([1, 1, 2])
        ib = ''
        for _ in range(r.randint(1, 4)):
            k = r.random()
            if k < 0.4:
                ib += self.marker()
            elif k < 0.7:
                ib += '##%d' % r.randint(1, ni)
            elif no:
                ib += '#%d' % r.randint(1, no)
            else:
                ib += self.marker()
        ptext_o = ''.join('#%d' % i for i in range(1, no + 1))
        # parameter text of the inner macro: undelimited, or with a leading literal and character delimiters
        inner_items, ptext_i = [], ''
        if r.random() < 0.35:
            lit = r.choice(['(', '[', '<', '='])
            inner_items.append(('lit', lit))
            ptext_i += lit
            self.features.add('nested-definition-leading-literal')
        for i in range(1, ni + 1):
            if r.random() < 0.35:
                d = r.choice([x for x in DELIMS if not x.startswith('\\')])
                inner_items.append(('d', i, d))
                ptext_i += '##%d%s' % (i, d)
                self.features.add('nested-definition-delimited')
            else:
                inner_items.append(('u', i))
                ptext_i += '##%d' % i
        sig = Sig(outer, 'def', self.rank - 1, depth, items=[('u', i) for i in range(1, no + 1)], defines=(inner, inner_items, self.rank))
        self.register(sig, False)
        self.features.add('nested-definition')
        return '\\def\\%s%s{\\def\\%s%s{%s}}' % (outer, ptext_o, inner, ptext_i, ib)

    # -- calls --------------------------------------------------------------------
    def arg_content(self, nparams=0, depth=0, callees=None, plain=False):
        r = self.r
        parts = []
        for _ in range(r.randint(1, 3)):
            k = r.random()
            if plain or k < 0.6:
                parts.append(self.marker())
            elif k < 0.75 and nparams:
                parts.append('#%d' % r.randint(1, nparams))
            elif callees and depth < 3:
                c = r.choice(callees)
                if c.undelimited_only() and c.defines is None:
                    parts.append(self.gen_call(c, nparams=nparams, depth=depth + 1, callees=[x for x in callees if x.rank < c.rank]))
                else:
                    parts.append(self.marker())
            else:
                parts.append(self.marker())
        if not plain and r.random() < 0.15:
            # an argument that begins or ends with a blank inside its braces: substituted next to a blank of a replacement text it
            # gives two space tokens in a row, which no source text can
            self.features.add('blank-edged-argument')
            k = r.random()
            if k < 0.6:
                parts.insert(0, ' ')
            if k > 0.4:
                parts.append(' ')
        return ''.join(parts)

    def gen_call(self, sig, nparams=0, depth=0, callees=None, toplevel=False):
        """text of a conforming call of sig.  nparams > 0: we are inside a body with that many parameters"""
        r = self.r
        self.calls += 1
        args = ''
        if sig.kind == 'newcommand':
            n = sig.nargs
            if sig.opt is not None:
                if r.random() < 0.5:
                    args += r.choice(['', ' ']) + '[' + (self.braced_edges() if r.random() < 0.15 else self.arg_content(plain=True)) + ']'
                    self.features.add('optional-present')
                else:
                    self.features.add('optional-absent')
                n -= 1
            for _ in range(n):
                args += self.undelimited_arg(nparams, depth, callees)
            if sig.opt is not None and not args.strip():
                args = '\\relax '      # keep a following '[' of the surrounding text from being taken as the optional argument
        else:
            for it in sig.items:
                if it[0] == 'lit':
                    args += it[1]
                elif it[0] == 'u':
                    args += self.undelimited_arg(nparams, depth, callees)
                elif it[0] == 'd' and it[2] == ' ':
                    # (no blank inside the argument except in braces)
                    args += self.marker() + ('{' + self.marker() + ' ' + self.marker() + '}' if r.random() < 0.3 else '') + ' '
                elif it[0] == 'd':
                    content = self.arg_content(nparams, depth, callees, plain=True)
                    if r.random() < 0.2 and not it[2].startswith('\\'):
                        # the delimiter hidden inside a brace group belongs to the argument (TeX matches at brace level 0)
                        first = it[2][:1] if not it[2].startswith('\\') else it[2]
                        content += '{' + self.marker() + first + (' ' if first[-1:].isalpha() else '') + '}' + self.marker()
                        self.features.add('delimiter-hidden-in-braces')
                    args += content + it[2]
                    if it[2].startswith('\\') and it[2][-1].isalpha():
                        args += ' '
                elif it[0] == 'b':
                    args += self.arg_content(plain=True) + '{' + self.marker() + '}'
        if not args:
            args = r.choice([' ', ' ', '{}'])
        # how the macro is named
        k = r.random()
        if k < 0.1 and depth == 0:
            self.features.add('csname-call')
            return '\\csname %s' % sig.name + self.cs('endcsname', args)
        return self.cs(sig.name, args)

    def undelimited_arg(self, nparams, depth, callees):
        r = self.r
        k = r.random()
        sp = ' ' if r.random() < 0.2 else ''
        if k < 0.3:
            if nparams and k < 0.07:
                # a parameter of the enclosing macro, unbraced, as the argument: whatever it stands for is substituted first (its first
                # token or group is taken; a blank at its edge meets the blank written before it)
                self.features.add('unbraced-parameter-argument')
                return r.choice(['', ' ', ' ']) + '#%d' % r.randint(1, nparams) + self.marker()
            return sp + r.choice(MARK)
        if k < 0.4 and callees:
            # an unbraced control sequence as the argument: the single token is passed on unexpanded (a parameterless macro, or \relax)
            plain = [c for c in callees if c.defines is None and ((c.kind == 'def' and not c.items) or (c.kind == 'newcommand' and c.nargs == 0))]
            if plain and r.random() < 0.8:
                self.features.add('unbraced-macro-argument')
                return sp + '\\' + r.choice(plain).name + ' '
            self.features.add('relax-argument')
            return sp + '\\relax '
        return sp + '{' + self.arg_content(nparams, depth, callees) + '}'

    # -- program ---------------------------------------------------------------------
    def gen_use(self):
        r = self.r
        vis = [s for s in self.visible().values()]
        if not vis:
            return self.marker()
        sig = r.choice(vis)
        depth = len(self.scopes) - 1
        if sig.defines is not None:
            inner, inner_items, rank = sig.defines
            # calling the definer defines `inner` locally with the parameter text recorded at its definition
            args = ''.join('{' + self.marker() + '}' for _ in sig.items)
            isig = Sig(inner, 'def', rank, depth, items=list(inner_items))
            self.register(isig, False)
            return self.cs(sig.name, args or r.choice([' ', '{}']))
        if sig.plain is not None and r.random() < 0.3:
            # \expandafter\a\b with \b expanding to (part of) the arguments of \a
            targets = [s for s in vis if s.kind == 'def' and s.defines is None and s.items and all(i[0] == 'u' for i in s.items) and len(s.items) <= len(sig.plain)]
            if targets:
                t = r.choice(targets)
                self.features.add('expandafter')
                self.calls += 1
                rest = ''.join('{' + self.marker() + '}' for _ in range(0))
                return '\\expandafter\\%s\\%s ' % (t.name, sig.name) + rest
        callees = [s for s in vis if s.defines is None]
        return self.gen_call(sig, depth=0, callees=callees, toplevel=True)

    def gen_block(self, depth, budget):
        r = self.r
        out = []
        n = r.randint(1, max(2, budget))
        for _ in range(n):
            k = r.random()
            if k < 0.35:
                out.append(self.gen_def())
            elif k < 0.75:
                out.append(self.gen_use())
            elif k < 0.85 and depth < 3:
                kind = r.choice(['{', '{', 'begingroup'])
                self.scopes.append({})
                inner = self.gen_block(depth + 1, max(2, budget // 2))
                self.scopes.pop()
                self.features.add('group-depth-%d' % (depth + 1))
                if kind == '{':
                    out.append('{' + inner + '}')
                else:
                    out.append('\\begingroup ' + inner + '\\endgroup ')
            elif k < 0.92 and self.cond_hook is not None:
                out.append(self.cond_hook(self, depth))
            else:
                out.append(self.marker() + r.choice(['', ' ', '\n']))
        return ''.join(out)

    def program(self):
        return self.gen_block(0, self.max_items)
