"""Generator of balanced scoping programs (C04 part b): nestings of {}, \\begingroup,
environments, math shifts, tabular cells/rows and commands with arguments that
contain local/global definitions, \\let, \\catcode, \\makeatletter, \\newif
setters and counter steps; after each closed scope a probe prints the meaning
of every name in force and a category probe.  The oracle is the reference
expander (save stack); the generator only has to keep the program valid."""
from .conds import alpha

ALIAS_NAMES = ['zqla', 'zqlb', 'zqlc']
SCOPES = ['{', '{', 'begingroup', 'center', 'quote', 'itemize', 'math', 'mathparen', 'tabular', 'textbf', 'mbox', 'emph', 'unknownenv', 'cmdenv', 'newenv', 'marginpar']


class ScopeGen(object):
    def __init__(self, r, maxdepth=4):
        self.r = r
        self.maxdepth = maxdepth
        self.vis = [{}]            # per scope: name -> True (defined); global defs live in vis[0]
        self.nmark = 0
        self.names = ['zqa', 'zqb', 'zqc', 'zqd']
        self.features = set()
        self.nscopes = 0
        self.kinds = set()
        self.atletter = [False]    # per scope: is @ a letter?
        self.inarg = 0             # depth of enclosing command arguments (\textbf{..}, \mbox{..}, \emph{..})

    def mark(self):
        self.nmark += 1
        return 'V' + alpha(self.nmark) + 'v'

    def defined(self):
        out = set()
        for s in self.vis:
            out.update(s)
        return sorted(out)

    def probe(self):
        """prints the meaning in force of every defined name + category probe + switch + counter"""
        s = ' P'
        for n in self.defined():
            s += '\\%s ' % n
        s += '\\zq@p '
        s += '\\ifzqsw T\\else F\\fi '
        s += '\\arabic{zqcnt}'
        return s + 'p '

    def definition(self, in_math=False):
        r = self.r
        k = r.random()
        name = r.choice(self.names)
        depth = len(self.vis) - 1
        if k < 0.4:
            body = self.mark()
            self.vis[-1][name] = body
            self.features.add('def')
            return '\\def\\%s{%s}' % (name, body)
        if k < 0.55:
            # sometimes with the very text of the local definition that is live at this point (equal text is not the same definition)
            live = [sc[name] for sc in self.vis[1:] if isinstance(sc.get(name), str)]
            body = live[-1] if (live and r.random() < 0.3) else self.mark()
            if live and body == live[-1]:
                self.features.add('global-definition-equal-to-live-local')
            for s in self.vis:
                s.pop(name, None)
            self.vis[0][name] = body
            if r.random() < 0.3:
                self.features.add('global-def')
                if r.random() < 0.4:
                    # the prefix reaches its \def only through \expandafter and a name built by \csname
                    self.features.add('global-def-through-expandafter')
                    return '\\global\\expandafter\\def\\csname %s\\endcsname{%s}' % (name, body)
                return '\\global\\def\\%s{%s}' % (name, body)
            self.features.add('gdef')
            return '\\gdef\\%s{%s}' % (name, body)
        if k < 0.57:
            # an alias of a character token, local or global.  Normal form (known finding `character-alias-substituted-when-tokenized`):
            # the name is not otherwise defined and not aliased at this point, and the \let does not stand inside a command argument
            free = [n for n in ALIAS_NAMES if n not in self.defined()]
            if free and not self.inarg:
                an = r.choice(free)
                ch = r.choice('uvw')
                if r.random() < 0.5:
                    self.vis[0][an] = True
                    self.features.add('global-let-character')
                    return '\\global\\let\\%s=%s' % (an, ch)
                self.vis[-1][an] = True
                self.features.add('let-character')
                return '\\let\\%s=%s' % (an, ch)
        if k < 0.6 and self.defined():
            src = r.choice([x for x in self.defined() if x not in ALIAS_NAMES] or [name])
            if src != name:
                for s in self.vis:
                    s.pop(name, None)
                self.vis[0][name] = True
                self.features.add('global-let')
                return '\\global\\let\\%s=\\%s ' % (name, src)
        if k < 0.7 and self.defined():
            src = r.choice([x for x in self.defined() if x not in ALIAS_NAMES] or [name])
            if src != name:
                self.vis[-1][name] = True
                self.features.add('let')
                return '\\let\\%s=\\%s ' % (name, src)
        if k < 0.8:
            self.features.add('makeatletter' if not self.atletter[-1] else 'makeatother')
            if self.atletter[-1]:
                if r.random() < 0.3:
                    # \makeatletter once more while @ is a letter already (no change); the next \makeatother still makes it 'other'
                    self.features.add('makeatletter-twice')
                    return '\\makeatletter '
                self.atletter[-1] = False
                return '\\makeatother '
            self.atletter[-1] = True
            return '\\makeatletter '
        if k < 0.85:
            self.features.add('catcode')
            v = r.choice([11, 12])
            self.atletter[-1] = (v == 11)
            return '\\catcode`\\@=%d\\relax ' % v
        if k < 0.93:
            self.features.add('switch-setter')
            return '\\zqsw%s ' % r.choice(['true', 'false'])
        self.features.add('stepcounter')
        return '\\stepcounter{zqcnt}'

    def block(self, depth, in_math=False):
        r = self.r
        out = ''
        for _ in range(r.randint(1, 4)):
            k = r.random()
            if not in_math and r.random() < 0.12:
                # a font or size declaration (sometimes the same one twice at one level, with definitions in between): it opens no
                # scope of its own; what is defined after it lives as long as the enclosing group
                self.features.add('declaration')
                out += r.choice(['\\small ', '\\small ', '\\bfseries ', '\\itshape ', '\\large '])
            if k < 0.5:
                out += self.definition(in_math)
            elif k < 0.75 and depth < self.maxdepth:
                out += self.scope(depth + 1, in_math)
            elif not in_math:
                out += self.probe()
        return out

    def scope(self, depth, in_math=False):
        r = self.r
        kinds = SCOPES
        if in_math:
            kinds = ['{', 'begingroup', 'unknownenv', 'nestedbox']
        kind = r.choice(kinds)
        if kind == 'marginpar' and getattr(self, 'inopt', 0):
            kind = '{'              # (a bracket argument cannot hold another bracket argument without braces around it)
        self.nscopes += 1
        self.kinds.add(kind)
        self.features.add('depth-%d' % depth)
        self.vis.append({})
        self.atletter.append(self.atletter[-1])
        if kind == '{':
            s = '{' + self.block(depth, in_math) + '}'
        elif kind == 'begingroup':
            s = '\\begingroup ' + self.block(depth, in_math) + '\\endgroup '
        elif kind == 'unknownenv':
            # an environment no package defines (plasTeX tolerates it and treats it as a group), in text and in mathematics
            nm = r.choice(['zqunk', 'zqunk', 'zqother'])
            s = '\\begin{%s}' % nm + self.block(depth, in_math) + '\\end{%s}' % nm
        elif kind == 'nestedbox':
            # (inside mathematics) a text box that holds another text box and, after it, mathematics of its own
            s = '\\mbox{\\textbf{}$' + self.definition(True) + '$}'
        elif kind == 'cmdenv':
            # a \\newcommand used in environment form (\\endzqce is not defined: LaTeX takes it for \\relax)
            s = '\\begin{zqce}' + self.block(depth) + '\\end{zqce}'
        elif kind == 'newenv':
            s = '\\begin{zqne}' + self.block(depth) + '\\end{zqne}'
        elif kind in ('center', 'quote'):
            s = '\\begin{%s}' % kind + self.block(depth) + '\\end{%s}' % kind
        elif kind == 'itemize':
            s = '\\begin{itemize}\\item ' + self.block(depth) + (' \\item ' + self.block(depth) if r.random() < 0.5 else '') + '\\end{itemize}'
        elif kind == 'math':
            s = '$' + self.definition(True) + self.block(depth, True) + '$'
        elif kind == 'mathparen':
            s = '\\(' + self.definition(True) + self.block(depth, True) + '\\)'
        elif kind == 'marginpar':
            # a command with two arguments, each a scope of its own: what the first one defines is gone when the second one is read
            self.vis.pop()
            self.atletter.pop()
            parts = []
            for opt in (True, False):
                if opt and r.random() < 0.25:
                    parts.append('')
                    continue
                self.vis.append({})
                self.atletter.append(self.atletter[-1])
                self.inarg += 1
                self.inopt = getattr(self, 'inopt', 0) + (1 if opt else 0)
                b = self.block(depth)
                if r.random() < 0.6:
                    b += self.probe()
                self.inopt -= (1 if opt else 0)
                self.inarg -= 1
                self.vis.pop()
                self.atletter.pop()
                parts.append(('[%s]' if opt else '{%s}') % b)
            return '\\marginpar' + ''.join(parts) + self.probe()
        elif kind == 'tabular':
            # every cell is its own scope
            self.vis.pop()
            self.atletter.pop()
            rows = []
            for _ in range(r.randint(1, 2)):
                cells = []
                for _ in range(2):
                    self.vis.append({})
                    self.atletter.append(self.atletter[-1])
                    cells.append(self.block(depth))
                    self.vis.pop()
                    self.atletter.pop()
                rows.append(' & '.join(cells))
            # (the category probe is the very first token of the second row, directly after the \\ that closed the last cell of the first)
            s = '\\begin{tabular}{cc}' + ' \\\\\\zq@p '.join(rows) + '\\end{tabular}'
            after = self.probe()
            return s + after
        else:
            self.inarg += 1
            s = '\\%s{' % kind + self.block(depth) + '}'
            self.inarg -= 1
        self.vis.pop()
        self.atletter.pop()
        return s + self.probe()

    def program(self):
        pre = ('\\makeatletter\\gdef\\zq@p{AT}\\makeatother\\def\\zq{NOAT}\\newif\\ifzqsw \\newcounter{zqcnt}')
        pre += '\\newcommand{\\zqce}{Ce}\\newenvironment{zqne}{[}{]}'
        self.vis[0]['zqa'] = True
        pre += '\\def\\zqa{%s}' % self.mark()
        body = self.block(0) + self.scope(1) + self.block(0) + self.probe()
        return pre, body
