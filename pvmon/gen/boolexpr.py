"""Generator + Python evaluator of ifthen test expressions (C19)."""
from fractions import Fraction
from .conds import PT, alpha

UNITS = ['pt', 'cm', 'mm', 'in', 'pc', 'bp', 'dd', 'cc', 'pt', 'mm']
LENGTHS = [('3cm', Fraction(3) * PT['cm']), ('10pt', Fraction(10)), ('0pt', Fraction(0)), ('2.5mm', Fraction(5, 2) * PT['mm']), ('7pt', Fraction(7)), ('1cc', PT['cc']), ('3dd', 3 * PT['dd'])]


class BoolGen(object):
    def __init__(self, r):
        self.r = r
        self.counters = {}     # name -> value
        self.nums = {}         # macro name -> value
        self.strs = {}         # macro name -> string
        self.lens = {}         # length register name -> (text of its current value, value in pt)
        self.lens_init = {}    # ... its value when the document starts (registers are assigned anew between the tests)
        self.bools = {}        # boolean name -> value
        self.features = set()
        self.adj = set()

    # ---- operands
    def int_operand(self):
        # signs in front of a number: any run of + and -, also in front of a counter value or a macro that holds a (negative) number
        txt, v = self._int_operand()
        k = self.r.random()
        if k < 0.15:
            self.features.add('unary-minus')
            return '-' + txt, -v
        if k < 0.22:
            self.features.add('sign-run')
            run = self.r.choice(['--', '- -', '+-', '-+-', '+'])
            return run + txt, (-v if run.count('-') % 2 else v)
        return txt, v

    def _int_operand(self):
        r = self.r
        k = r.random()
        if k < 0.55:
            v = r.choice([0, 1, 2, 3, 5, 7, 10, 12, 99, 100, -1, -3, -12])
            return str(v), v
        if k < 0.8:
            if not self.counters or r.random() < 0.3:
                self.counters['zc' + alpha(len(self.counters))] = r.choice([0, 1, 2, 3, 5, 12])
            n = r.choice(sorted(self.counters))
            self.features.add('counter-operand')
            return '\\value{%s}' % n, self.counters[n]
        if not self.nums or r.random() < 0.3:
            self.nums['zqn' + alpha(len(self.nums))] = r.choice([0, 1, 2, 4, 7, 12, 13, 100, -3, -5])
        n = r.choice(sorted(self.nums))
        self.features.add('macro-operand')
        return '\\%s' % n, self.nums[n]

    def dim(self):
        r = self.r
        if r.random() < 0.25:
            # a length register: bare, negated, or with a factor
            if not self.lens or r.random() < 0.3:
                nm = 'zql' + alpha(len(self.lens))
                self.lens[nm] = r.choice(LENGTHS)
                self.lens_init[nm] = self.lens[nm]
            n = r.choice(sorted(self.lens))
            v = self.lens[n][1]
            self.features.add('length-register-operand')
            k = r.random()
            if k < 0.5:
                return '\\%s' % n, v
            if k < 0.75:
                return '-\\%s' % n, -v
            f = r.choice(['2', '0.5', '1.5'])
            return f + '\\%s' % n, Fraction(f) * v
        u = r.choice(UNITS)
        whole = r.choice([0, 1, 2, 3, 5, 10, 20, 72])
        frac = r.choice(['', '', '.5', '.25'])
        val = (Fraction(whole) + (Fraction(int(frac[1:]), 10 ** (len(frac) - 1)) if frac else 0)) * PT[u]
        return '%d%s%s' % (whole, frac, u), val

    # ---- atoms
    def atom(self):
        r = self.r
        k = r.choice(['cmp', 'cmp', 'cmp', 'len', 'equal', 'isodd', 'isundef', 'bool'])
        self.features.add('atom:' + k)
        if k == 'cmp':
            a, va = self.int_operand()
            b, vb = self.int_operand()
            rel = r.choice('<=>')
            sp = r.choice(['', ' '])
            return a + sp + rel + sp + b, {'<': va < vb, '=': va == vb, '>': va > vb}[rel]
        if k == 'len':
            a, va = self.dim()
            if r.random() < 0.3:
                b, vb = a, va
            else:
                b, vb = self.dim()
                t = 0
                while abs(va - vb) < 1 and t < 20:
                    b, vb = self.dim()
                    t += 1
                if abs(va - vb) < 1:
                    b, vb = a, va
            rel = r.choice('<=>')
            return '\\lengthtest{%s%s%s}' % (a, rel, b), {'<': va < vb, '=': va == vb, '>': va > vb}[rel]
        if k == 'equal':
            s = r.choice(['ab', 'abc', 'x', 'a1', 'ab', '', ''])      # the emptiness idiom \\equal{#1}{} included
            t = r.choice(['ab', 'abc', 'x', 'a1', 'ab', '', ''])
            if s == '' and t == '':
                self.features.add('equal-both-empty')
            st = s
            if r.random() < 0.3:
                nm = 'zqs' + alpha(len(self.strs))
                self.strs[nm] = s
                st = '\\' + nm
                self.features.add('equal-macro')
            return '\\equal{%s}{%s}' % (st, t), s == t
        if k == 'isodd':
            a, va = self.int_operand()
            return '\\isodd{%s}' % a, va % 2 == 1
        if k == 'isundef':
            if r.random() < 0.5 and (self.nums or self.strs):
                n = r.choice(sorted(list(self.nums) + list(self.strs)))
                return '\\isundefined{\\%s}' % n, False
            return '\\isundefined{\\zqundef%s}' % alpha(r.randint(0, 4)), True
        if not self.bools or r.random() < 0.4:
            name = 'zb' + alpha(len(self.bools))
            if r.random() < 0.25:
                # names that are also the names of macros (the boolean `par` is the switch \ifpar; \par is something else)
                free = [x for x in ('b', 'c', 'par', 'item', 'section', 'twocolumn', 'em', 'index', 'relax') if x not in self.bools]
                if free:
                    name = r.choice(free)
                    self.features.add('boolean-named-like-a-macro')
            elif r.random() < 0.25:
                # names with capital letters, and names that differ from another boolean in case only
                free = [x for x in ('Done', 'done', 'isOdd', 'OK', 'ok', 'Go', 'go', 'zbA') if x not in self.bools]
                if free:
                    name = r.choice(free)
                    self.features.add('boolean-name-with-capitals')
            self.bools[name] = r.random() < 0.5
        n = r.choice(sorted(self.bools))
        return '\\boolean{%s}' % n, self.bools[n]

    # ---- expression trees
    def operand(self, depth):
        """something that may stand where an operand is expected: atom | \\not operand | \\( test \\)"""
        r = self.r
        k = r.random()
        if depth <= 0 or k < 0.45:
            t, v = self.atom()
            return t, v, 'atom'
        if k < 0.7:
            t, v, kind = self.operand(depth - 1)
            self.adj.add('not>' + kind)
            self.features.add('not')
            return r.choice(['\\not ', '\\NOT ', '\\not']) + (' ' if t[0].isalpha() else '') + t, (not v), 'not'
        t, v = self.test(depth - 1)
        self.features.add('paren')
        return '\\(' + r.choice(['', ' ']) + t + r.choice(['', ' ']) + '\\)', v, 'paren'

    def test(self, depth):
        r = self.r
        t, v, kind = self.operand(depth)
        n = r.choice([0, 0, 1, 1, 2, 3])
        prev = kind
        for _ in range(n):
            op = r.choice(['and', 'or'])
            t2, v2, k2 = self.operand(depth)
            self.adj.add('%s>%s' % (prev, op))
            self.adj.add('%s>%s' % (op, k2))
            prev = k2
            word = {'and': r.choice(['\\and', '\\AND']), 'or': r.choice(['\\or', '\\OR'])}[op]
            t = t + ' ' + word + ' ' + t2
            v = (v and v2) if op == 'and' else (v or v2)     # left to right, equal precedence
        return t, v

    def reassign(self):
        """-> source that gives one of the length registers a new value (TeX-style assignment), or ''; what is generated afterwards
        sees the new value"""
        if not self.lens:
            return ''
        n = self.r.choice(sorted(self.lens))
        self.lens[n] = self.r.choice(LENGTHS)
        self.features.add('register-assigned-between-tests')
        return '\\%s=%s ' % (n, self.lens[n][0])

    def preamble(self):
        s = ''
        for n, v in sorted(self.counters.items()):
            s += '\\newcounter{%s}\\setcounter{%s}{%d}' % (n, n, v)
        for n, v in sorted(self.nums.items()):
            s += '\\def\\%s{%d}' % (n, v)
        for n, v in sorted(self.strs.items()):
            s += '\\def\\%s{%s}' % (n, v)
        for n, (txt, v) in sorted(self.lens_init.items()):
            # (assigned the TeX way: plasTeX does not carry out \setlength -- a design limit, DESIGN.md section 8)
            s += '\\newlength{\\%s}\\%s=%s ' % (n, n, txt)
        for n, v in sorted(self.bools.items()):
            decl = self.r.choice(['newboolean', 'newboolean', 'provideboolean', 'newif'])
            if decl == 'newif':
                # a TeX switch: \boolean{n} tests \ifn
                s += '\\newif\\if%s ' % n
                self.features.add('boolean-from-newif')
            else:
                s += '\\%s{%s}' % (decl, n)
            k = self.r.random()
            if k < 0.3:
                # set with the switch's own setters, passing through the other state first
                s += '\\%s%s \\%s%s ' % (n, 'false' if v else 'true', n, 'true' if v else 'false')
                self.features.add('boolean-set-by-setter')
            elif k < 0.5 and decl != 'newif':
                s += '\\setboolean{%s}{%s}\\setboolean{%s}{%s}' % (n, 'false' if v else 'true', n, 'True' if v else 'FALSE')
                self.features.add('boolean-set-twice')
            else:
                s += '\\setboolean{%s}{%s}' % (n, 'true' if v else 'false')
            if self.r.random() < 0.3:
                # the declare-if-missing idiom on a boolean that exists already: its value stays
                s += '\\provideboolean{%s}' % n
                self.features.add('provideboolean-on-existing')
        return s
