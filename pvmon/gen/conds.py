"""Generator of conditional programs (C03).  Every branch of every conditional
holds a unique marker word and a \\stepcounter on a counter private to that
branch, so 'contributes no text and no side effect' is observable at the API
boundary.  Number literals are \\relax-terminated (NF-1)."""
from fractions import Fraction

UNITS = ['pt', 'cm', 'mm', 'in', 'pc', 'bp', 'dd', 'cc', 'sp']
PT = {'pt': Fraction(1), 'pc': Fraction(12), 'in': Fraction(7227, 100), 'bp': Fraction(7227, 7200), 'cm': Fraction(7227, 254),
      'mm': Fraction(7227, 2540), 'dd': Fraction(1238, 1157), 'cc': Fraction(14856, 1157), 'sp': Fraction(1, 65536)}
L = 'abcdefghjkmnpqrstuvwxyz'


def alpha(n):
    s = ''
    while True:
        s = L[n % 23] + s
        n //= 23
        if n == 0:
            return s


class CondGen(object):
    def __init__(self, r, maxdepth=4):
        self.r = r
        self.nb = 0                  # branch counter index
        self.branches = []           # counter names
        self.counters = {}           # user counters name -> initial value
        self.nums = {}               # macro numbers name -> int
        self.switches = []
        self.plainmacros = {}        # name -> body (for \ifx)
        self.features = set()
        self.maxdepth = maxdepth
        self.helpers = set()
        self.regs = {}               # \newcount registers: name -> current value (assignments happen between the top-level items)
        self.reginit = {}
        self.dregs = {}              # \newdimen registers: name -> value in pt (set once in the prelude)
        self.nmac = 0
        self.forms = set()

    # -- operands ------------------------------------------------------------
    def int_operand(self):
        r = self.r
        k = r.random()
        if k < 0.5:
            v = r.choice([0, 1, 2, 3, 7, 10, 12, 99, 100, 255, 1000, 65536])
            v = v if r.random() < 0.7 else -v
            s = str(abs(v))
            if v < 0:
                s = r.choice(['-', '- ', '+-', '-+', '---']) + s
            elif r.random() < 0.15:
                s = r.choice(['+', '--', '+ ']) + s
            if r.random() < 0.1 and v >= 0:
                # other radices
                s = r.choice(["'%o" % v, '"%X' % v])
                self.features.add('radix-operand')
            return s, v
        if k < 0.75:
            if not self.counters or r.random() < 0.3:
                name = 'zc' + alpha(len(self.counters))
                self.counters[name] = r.choice([0, 1, 2, 3, 5, 12])
            name = r.choice(sorted(self.counters))
            self.features.add('counter-operand')
            return '\\value{%s}' % name, self.counters[name]
        if r.random() < 0.12:
            # a number whose digits continue across a macro boundary: literal digits, then a macro that yields more digits
            # (which may itself end in another such macro)
            d1 = str(r.choice([1, 2, 5, 10, 12]))
            if 'zqdga' not in self.plainmacros:
                self.plainmacros['zqdga'] = str(r.choice([0, 3, 7, 25]))
                self.plainmacros['zqdgb'] = str(r.choice([1, 4])) + '\\zqdga '
            which = r.choice(['zqdga', 'zqdgb'])
            tailtxt = self.plainmacros['zqdga'] if which == 'zqdga' else self.plainmacros['zqdgb'].split('\\')[0] + self.plainmacros['zqdga']
            self.features.add('digits-continued-by-macro')
            return d1 + '\\' + which, int(d1 + tailtxt)
        if self.regs and r.random() < 0.5:
            # a \newcount register (assigned at the outer level of the program, read anywhere)
            name = r.choice(sorted(self.regs))
            self.features.add('register-operand')
            return '\\%s' % name, self.regs[name]
        if not self.nums or r.random() < 0.3:
            name = 'zqn' + alpha(len(self.nums))
            self.nums[name] = r.choice([0, 1, 2, 4, 7, 12, 13, 100, -3])
        name = r.choice(sorted(self.nums))
        self.features.add('macro-operand')
        return '\\%s' % name, self.nums[name]

    def dim_operand(self):
        r = self.r
        if self.dregs and r.random() < 0.35:
            # a \newdimen register: bare, with signs, or with a factor
            nm = r.choice(sorted(self.dregs))
            v = self.dregs[nm]
            self.features.add('dimen-register-operand')
            k = r.random()
            if k < 0.4:
                return '\\%s' % nm, v
            if k < 0.75:
                run = r.choice(['-', '-', '+', '--', '- '])
                return run + '\\%s' % nm, (-v if run.count('-') % 2 else v)
            f = r.choice(['2', '0.5', '-3', '1.5'])
            return f + '\\%s' % nm, Fraction(f) * v
        u = r.choice(UNITS)
        if u == 'sp':
            n = r.choice([0, 1, 65536, 100000, 655360])
            txt = '%d%s' % (n, u)
            return txt, Fraction(n) * PT[u]
        whole = r.choice([0, 1, 2, 3, 5, 10, 20, 72])
        frac = r.choice(['', '', '.5', '.25', '.0', '.125', ',5', '.05', '.007', '.09'])
        txt = '%d%s' % (whole, frac)
        val = Fraction(whole) + (Fraction(int(frac[1:]), 10 ** (len(frac) - 1)) if frac else 0)
        if r.random() < 0.2 and whole == 0 and frac:
            txt = frac
        sp = r.choice(['', '', ' '])
        neg = r.random() < 0.15
        return ('-' if neg else '') + txt + sp + u, (-1 if neg else 1) * val * PT[u]

    def term(self, operand):
        """what ends a number: \\relax, or -- after a literal written in digits -- a single space (TeX stops at the space and does not
        look at what follows; the branch may then begin with a command that has side effects)"""
        if operand[-1:].isdigit() and self.r.random() < 0.45:
            self.features.add('number-ended-by-space')
            return ' '
        return '\\relax '

    # -- structure --------------------------------------------------------------
    def branch(self, depth):
        """content of one branch: marker + private counter step + optional nested stuff"""
        r = self.r
        if r.random() < 0.08:
            self.features.add('empty-branch')
            return r.choice(['', '', ' '])
        name = 'zk' + alpha(self.nb)
        self.nb += 1
        self.branches.append(name)
        out = ('W' + name[2:].upper() + 'x' + '\\stepcounter{%s}' % name) if r.random() < 0.5 else ('\\stepcounter{%s}' % name + 'W' + name[2:].upper() + 'x')
        if self.switches and r.random() < 0.2:
            sw = r.choice(self.switches)
            out += '\\%s%s ' % (sw[2:], r.choice(['true', 'false']))
            self.features.add('setter-in-branch')
        if r.random() < 0.08:
            out += '\\gdef\\zqlate%s{}' % alpha(r.randint(0, 2))
            self.features.add('global-definition-in-branch')
        if depth < self.maxdepth and r.random() < 0.45:
            out += self.conditional(depth + 1)
            if r.random() < 0.3:
                out += self.conditional(depth + 1)
        if r.random() < 0.2:
            out += ' T' + name[2:] + ' '
        if r.random() < 0.12:
            out += '\\gdef\\zqlate%s{}' % alpha(r.randint(0, 2))
            self.features.add('global-definition-in-branch')
        if r.random() < 0.1:
            # a macro whose name starts with `if` but which is no conditional (like \ifthenelse, \iflanguage): it does not nest
            self.helpers.add('ifzqmac')
            out += '\\ifzqmac '
        if getattr(self, 'locif', False) and r.random() < 0.6:
            # the same, for a macro defined locally in a group that is neither the innermost nor the outermost one
            out += '\\ifzqloc '
            self.features.add('if-named-macro-of-an-intermediate-group')
        return out

    def conditional(self, depth):
        r = self.r
        k = r.choice(['iftrue', 'iffalse', 'ifnum', 'ifnum', 'ifdim', 'ifodd', 'ifcase', 'ifcase', 'ifx', 'ifdefined', 'newif', 'newif'])
        self.forms.add('%s@%d' % (k, depth))
        if k == 'ifcase':
            ncases = r.randint(1, 6)
            sel_txt, sel = self.int_operand() if r.random() < 0.4 else (None, None)
            if sel_txt is None:
                sel = r.randint(-2, 8)
                sel_txt = str(sel) if sel >= 0 else '-' + str(-sel)
            has_else = r.random() < 0.5
            self.features.add('ifcase:%s:%s' % ('in' if 0 <= sel < ncases else 'out', 'else' if has_else else 'noelse'))
            s = '\\ifcase ' + sel_txt + self.term(sel_txt) + '\\or '.join(self.branch(depth) for _ in range(ncases))
            if has_else:
                s += '\\else ' + self.branch(depth)
            return s + '\\fi '
        if k == 'iftrue' or k == 'iffalse':
            test = '\\' + k + ' '
        elif k == 'ifnum':
            a, _ = self.int_operand()
            b, _ = self.int_operand()
            sp = r.choice(['', '', ' '])
            test = '\\ifnum ' + a + sp + r.choice('<=>') + sp + b + self.term(b)
            if a.startswith('\\zqn') and sp == '':
                pass
        elif k == 'ifdim':
            a, va = self.dim_operand()
            if r.random() < 0.12:
                # whole numbers of scaled points (exact in TeX and in binary floating point alike): operands a few sp apart differ
                a, b = ['%dsp' % r.choice([0, 1, 2, 3, 5, 7, 10, 65536, 65539]) for _ in range(2)]
                self.features.add('ifdim-scaled-point-literals')
            elif r.random() < 0.3:
                b, vb = a, va
            else:
                b, vb = self.dim_operand()
                tries = 0
                while abs(va - vb) < 1 and tries < 20:
                    b, vb = self.dim_operand()
                    tries += 1
                if abs(va - vb) < 1:
                    b, vb = a, va
            test = '\\ifdim ' + a + r.choice('<=>') + b + '\\relax '
        elif k == 'ifodd':
            a, _ = self.int_operand()
            test = '\\ifodd ' + a + self.term(a)
        elif k == 'ifx':
            if r.random() < 0.5:
                c1 = r.choice('abAB12')
                c2 = c1 if r.random() < 0.5 else r.choice('abAB12')
                test = '\\ifx ' + c1 + c2
                self.features.add('ifx-chars')
            elif r.random() < 0.2:
                # undefined names: two of them (equal or not) agree, an undefined and a defined one do not
                u1 = 'zqundef' + alpha(r.randint(0, 5))
                u2 = r.choice(['zqundef' + alpha(r.randint(0, 5)), 'zqundef' + alpha(r.randint(0, 5)), 'relax', 'zqlate' + alpha(r.randint(0, 2))])
                if r.random() < 0.3:
                    u1, u2 = u2, u1
                test = '\\ifx\\%s\\%s ' % (u1, u2)
                self.features.add('ifx-undefined-names')
            else:
                if len(self.plainmacros) < 2 or r.random() < 0.3:
                    nm = 'zqp' + alpha(len(self.plainmacros))
                    self.plainmacros[nm] = r.choice(['x', 'xy', 'x1', 'abc', 'x'])
                m1 = r.choice(sorted(self.plainmacros))
                m2 = r.choice(sorted(self.plainmacros))
                test = '\\ifx\\%s\\%s ' % (m1, m2)
                self.features.add('ifx-macros')
        elif k == 'ifdefined':
            k2 = r.random()
            if k2 < 0.4 and (self.plainmacros or self.nums):
                nm = r.choice(sorted(list(self.plainmacros) + list(self.nums)))
            elif k2 < 0.6:
                # a name whose meaning is a primitive: \relax itself or a \let alias of it (defined, for TeX)
                nm = r.choice(['relax', 'zqrlx', 'zqrlx'])
                if nm == 'zqrlx':
                    self.helpers.add('zqrlx')
                self.features.add('ifdefined-relax-meaning')
            elif k2 < 0.8:
                nm = 'zqundef' + alpha(r.randint(0, 5))
            else:
                # a name that is given a global definition somewhere in the middle of the run: tests before it see it undefined, tests
                # after it (also in a scope that has already made such tests) see it defined
                nm = 'zqlate' + alpha(r.randint(0, 2))
                self.features.add('ifdefined-name-defined-midway')
            test = '\\ifdefined\\%s ' % nm
        else:
            if not self.switches or r.random() < 0.3:
                # the part after `if` starts with z, f or i (the setters are named by cutting the two letters `if`, nothing more)
                self.switches.append(r.choice(['ifzqsw', 'ifzqsw', 'iffzq', 'ifizq', 'ififzq']) + alpha(len(self.switches)))
            sw = r.choice(self.switches)
            pre = ''
            if r.random() < 0.4:
                pre = '\\%s%s ' % (sw[2:], r.choice(['true', 'false']))
            test = pre + '\\' + sw + ' '
        has_else = r.random() < 0.6
        s = test + self.branch(depth)
        if has_else:
            s += '\\else ' + self.branch(depth)
        self.features.add('else' if has_else else 'noelse')
        return s + '\\fi '

    def placed(self, depth=1):
        """a conditional placed at top level, in a group, in a macro body or in a macro argument"""
        r = self.r
        if depth == 1 and not getattr(self, 'locif', False) and r.random() < 0.15:
            self.locif = True
            try:
                c = self.conditional(depth)
            finally:
                self.locif = False
            inner = r.choice(['{%s}', '\\begingroup %s\\endgroup ', '{{%s}}'])
            if r.random() < 0.3:
                self.helpers.add('zqid')
                inner = '\\zqid{%s}'
            return '{\\def\\ifzqloc{Ql}' + (inner % c) + '}'
        if r.random() < 0.08:
            # a macro with parameters: an \ifx on a parameter and an ordinary token, then a conditional whose number is a parameter
            self.features.add('in-macro-body-with-parameters')
            self.nmac += 1
            nm = 'zqm' + alpha(self.nmac)
            t1 = '\\ifx#1%s %s\\else %s\\fi ' % (r.choice(['\\zqundefb ', '\\relax ', 'x', '\\zqundefa ']), self.branch(depth), self.branch(depth))
            form = r.choice(['ifcase', 'ifodd', 'ifnum<', 'ifnum>'])
            if form == 'ifcase':
                t2 = '\\ifcase#2 ' + self.branch(depth) + '\\or ' + self.branch(depth) + '\\or ' + self.branch(depth) + '\\else ' + self.branch(depth) + '\\fi '
            elif form == 'ifodd':
                t2 = '\\ifodd#2 ' + self.branch(depth) + '\\else ' + self.branch(depth) + '\\fi '
            elif form == 'ifnum<':
                t2 = '\\ifnum 3<#2\\relax ' + self.branch(depth) + '\\else ' + self.branch(depth) + '\\fi '
            else:
                t2 = '\\ifnum#2>1 ' + self.branch(depth) + '\\else ' + self.branch(depth) + '\\fi '
            if r.random() < 0.3:
                t1, t2 = t2, t1
            calls = ''.join('\\%s%s{%d}' % (nm, r.choice(['{x}', '\\zqundefa ', '\\relax ', '{\\zqundefb}']), r.choice([0, 1, 2, 3, 5])) for _ in range(r.randint(1, 2)))
            return '\\def\\%s#1#2{%s%s}%s' % (nm, t1, t2, calls)
        c = self.conditional(depth)
        k = r.random()
        if k < 0.4:
            return c
        if k < 0.55:
            self.features.add('in-group')
            return '{' + c + '}'
        if k < 0.65:
            self.features.add('in-begingroup')
            return '\\begingroup ' + c + '\\endgroup '
        if k < 0.82:
            self.features.add('in-macro-body')
            self.nmac += 1
            nm = 'zqm' + alpha(self.nmac)
            return '\\def\\%s{%s}\\%s ' % (nm, c, nm) + ('\\%s ' % nm if r.random() < 0.3 else '')
        self.features.add('in-macro-argument')
        h = r.choice(['zqid', 'zqtw', 'zqsel'])
        self.helpers.add(h)
        if h == 'zqsel':
            return '\\zqsel{%s}{%s}' % (c, self.conditional(depth))
        return '\\%s{%s}' % (h, c)

    def program(self):
        r = self.r
        body = ''
        if r.random() < 0.3:
            for k in range(r.randint(1, 2)):
                self.dregs['zqd' + alpha(k)] = Fraction(r.choice([0, 3, 10, 12, -5]))
        if r.random() < 0.35:
            for k in range(r.randint(1, 2)):
                nm = 'zqr' + alpha(k)
                self.regs[nm] = self.reginit[nm] = r.choice([0, 1, 2, 5, 7, 12, -3])
        for _ in range(r.randint(1, 4)):
            body += self.placed()
            if r.random() < 0.3:
                body += 'M' + alpha(r.randint(0, 500)) + ' '
            if self.regs and r.random() < 0.5:
                # a TeX-style assignment between two conditionals (whatever the conditionals before it did, it must take effect)
                nm = r.choice(sorted(self.regs))
                v = r.choice([0, 1, 3, 4, 7, 9, 100, -2])
                self.regs[nm] = v
                body += '\\%s%s%d%s' % (nm, r.choice(['=', '=', ' = ', ' ']), v, r.choice(['\\relax ', ' ']))
                self.features.add('register-assignment')
        if r.random() < 0.3:
            # the whole run inside one group: every placed conditional shares a scope that is not the outermost one
            body = r.choice(['{%s}', '\\begingroup %s\\endgroup ']) % body
            self.features.add('run-inside-one-group')
        pre = ''
        for name in self.branches:
            pre += '\\newcounter{%s}' % name
        for name, v in sorted(self.counters.items()):
            pre += '\\newcounter{%s}\\setcounter{%s}{%d}' % (name, name, v)
        for name, v in sorted(self.nums.items()):
            pre += '\\def\\%s{%d}' % (name, v)
        for name, b in sorted(self.plainmacros.items()):
            pre += '\\def\\%s{%s}' % (name, b)
        for sw in self.switches:
            pre += '\\newif\\%s ' % sw
        for nm, v in sorted(self.dregs.items()):
            pre += '\\newdimen\\%s \\%s=%dpt ' % (nm, nm, v)
        for nm, v in sorted(self.reginit.items()):
            pre += '\\newcount\\%s \\%s=%d ' % (nm, nm, v)
        if 'ifzqmac' in self.helpers:
            pre += '\\def\\ifzqmac{Qi}'
        if 'zqrlx' in self.helpers:
            pre += '\\let\\zqrlx\\relax '
        if 'zqid' in self.helpers:
            pre += '\\def\\zqid#1{#1}'
        if 'zqtw' in self.helpers:
            pre += '\\def\\zqtw#1{#1#1}'
        if 'zqsel' in self.helpers:
            pre += '\\def\\zqsel#1#2{#2}'
        return pre + '\n' + body
