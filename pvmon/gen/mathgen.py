"""Formula generator for C11(c): returns (source as the author writes it,
source with user macros expanded) -- ground truth by construction."""

GREEK = ['\\alpha', '\\beta', '\\gamma', '\\lambda', '\\pi', '\\infty', '\\cdot', '\\times', '\\leq', '\\geq', '\\neq', '\\to']
ACCENTS = ['hat', 'bar', 'vec', 'tilde', 'dot']
SPACES = ['\\,', '\\;', '\\quad', '\\qquad', '\\!', '\\:']
BIGOPS = ['\\sum', '\\int', '\\prod', '\\lim']
DELIMS = [('(', ')'), ('[', ']'), ('\\{', '\\}'), ('|', '|'), ('.', ')'), ('\\langle', '\\rangle')]

# user macros: name -> (nargs, body template)
MACROS = {'zqm': (1, '\\alpha_{#1}'), 'zqv': (0, '\\vec{v}'), 'zqf': (2, '\\frac{#1}{#2}+1'), 'zqs': (1, '{#1}^{2}'), 'zqe': (0, '\\varepsilon')}


DEF_STYLE = ('zqv', 'zqm')

# user macros with an optional first argument: name -> (number of arguments, default of the optional one, body)
OPT_MACROS = {'zqn': (2, '', '\\left\\| #2\\right\\| _{#1}'), 'zqr': (2, '3', '\\sqrt[#1]{#2}')}


def preamble():
    out = ''
    for name, (n, body) in sorted(MACROS.items()):
        if name in DEF_STYLE:
            # the same macros as plain TeX definitions (a parameterless \def hands out its stored replacement text itself)
            out += '\\def\\%s%s{%s}\n' % (name, ''.join('#%d' % (k + 1) for k in range(n)), body)
        else:
            out += '\\newcommand{\\%s}%s{%s}\n' % (name, '[%d]' % n if n else '', body)
    for name, (n, dflt, body) in sorted(OPT_MACROS.items()):
        out += '\\newcommand{\\%s}[%d][%s]{%s}\n' % (name, n, dflt, body)
    return out


class MathGen(object):
    def __init__(self, r, macros=True, arrays=True, text=True):
        self.r = r
        self.macros = macros
        self.arrays = arrays
        self.text = text
        self.features = set()
        self.nw = 0

    def atom(self):
        r = self.r
        k = r.random()
        if k < 0.06:
            s = r.choice('fgh') + r.choice(["'", "''", '--', "`"])      # primes / ligature-like sequences must stay ASCII in math
            self.features.add('prime-or-dashes')
        elif k < 0.12:
            # an empty group: behind a control word, as the carrier of a prescript, as a separator between two signs
            s = r.choice([r.choice(GREEK) + '{}', '{}^{14}_{6}C', '{}_' + r.choice('nk') + ' x', '-{} ' + r.choice('ab'), '{}= ', '{}'])
            self.features.add('empty-group')
        elif k < 0.4:
            s = r.choice('abcdxyzmnk')
        elif k < 0.55:
            s = str(r.randint(0, 12))
        elif k < 0.75:
            s = r.choice(GREEK) + ' '
        elif k < 0.9:
            s = r.choice(['+', '-', '=', '<', '>', ',', '/'])
            if s in '<>':
                self.features.add('lt-gt')
        else:
            s = r.choice(SPACES) + ' '
            self.features.add('spacing')
        return s, s

    def expr(self, depth):
        """-> (written, expanded)"""
        r = self.r
        w, e = '', ''
        for _ in range(r.randint(1, 3)):
            a, b = self.term(depth)
            w += a
            e += b
        return w, e

    def term(self, depth):
        r = self.r
        if depth <= 0:
            return self.atom()
        k = r.random()
        d = depth - 1
        if k < 0.25:
            return self.atom()
        if k < 0.29 and self.macros:
            # a one-token user macro as an unbraced argument (TeX takes the single token, then expands it in place)
            self.features.add('user-macro-unbraced-argument')
            form = r.choice(['sup', 'sub', 'frac1', 'frac2', 'sqrt', 'accent'])
            b = r.choice('abxyn')
            t = r.choice('2kn')
            W, E = '\\zqe ', '\\varepsilon '
            if form == 'sup':
                return b + '^' + W, b + '^' + E
            if form == 'sub':
                return b + '_' + W, b + '_' + E
            if form == 'frac1':
                return '\\frac' + W + t + ' ', '\\frac' + E + t + ' '
            if form == 'frac2':
                return '\\frac ' + b + W, '\\frac ' + b + E
            if form == 'sqrt':
                return '\\sqrt' + W, '\\sqrt' + E
            c = r.choice(ACCENTS)
            return '\\%s' % c + W, '\\%s' % c + E
        if k < 0.4:
            self.features.add('script')
            bw, be = self.atom() if r.random() < 0.7 else self.braced(d)
            out_w, out_e = bw, be
            kinds = r.choice([['^'], ['_'], ['_', '^']])
            for c in kinds:
                if r.random() < 0.35:
                    t = r.choice('ijkn012')
                    out_w += c + t
                    out_e += c + t
                    self.features.add('script-single-token')
                else:
                    sw, se = self.expr(d)
                    out_w += c + '{' + sw + '}'
                    out_e += c + '{' + se + '}'
            return out_w, out_e
        if k < 0.5:
            self.features.add('frac')
            a, a2 = self.expr(d)
            b, b2 = self.expr(d)
            return '\\frac{%s}{%s}' % (a, b), '\\frac{%s}{%s}' % (a2, b2)
        if k < 0.58:
            a, a2 = self.expr(d)
            if r.random() < 0.4:
                self.features.add('sqrt-optional')
                n = r.choice('3n')
                return '\\sqrt[%s]{%s}' % (n, a), '\\sqrt[%s]{%s}' % (n, a2)
            self.features.add('sqrt')
            return '\\sqrt{%s}' % a, '\\sqrt{%s}' % a2
        if k < 0.68:
            self.features.add('left-right')
            l, rr = r.choice(DELIMS)
            a, a2 = self.expr(d)
            sp = ' ' if l[-1].isalpha() else ''
            sp2 = ' ' if rr[-1].isalpha() else ''
            return '\\left%s%s %s \\right%s%s' % (l, sp, a, rr, sp2), '\\left%s%s %s \\right%s%s' % (l, sp, a2, rr, sp2)
        if k < 0.74 and self.arrays:
            self.features.add('array')
            nc = r.randint(1, 3)
            rows_w, rows_e = [], []
            for _ in range(r.randint(1, 3)):
                cw, ce = [], []
                for _ in range(nc):
                    # mostly atoms; now and then a whole expression (fractions, delimiters, another array among other material)
                    deep = d > 0 and r.random() < 0.3
                    if deep:
                        self.features.add('array-cell-with-nested-structure')
                    a, a2 = self.expr(d if deep else 0)
                    cw.append(a)
                    ce.append(a2)
                rows_w.append(' & '.join(cw))
                rows_e.append(' & '.join(ce))
            spec = ''.join(r.choice('lcr') for _ in range(nc))
            return ('\\begin{array}{%s} %s \\end{array}' % (spec, ' \\\\ '.join(rows_w)), '\\begin{array}{%s} %s \\end{array}' % (spec, ' \\\\ '.join(rows_e)))
        if k < 0.8 and self.text:
            self.features.add('text-box')
            self.nw += 1
            cmd = r.choice(['mbox', 'text', 'mathrm', 'textbf'])
            wd = 'Wm%dw' % self.nw
            if r.random() < 0.3:
                wd += ' ' + r.choice(['if', 'and', 'otherwise'])
            s = '\\%s{%s}' % (cmd, wd)
            return s, s
        if k < 0.86:
            self.features.add('accent')
            a, a2 = self.atom()
            while a.strip() in '+-=<>,/' or a.strip().startswith('\\,') or a.strip() in [x for x in SPACES]:
                a, a2 = self.atom()
            c = r.choice(ACCENTS)
            return '\\%s{%s}' % (c, a.strip()), '\\%s{%s}' % (c, a2.strip())
        if k < 0.92:
            self.features.add('bigop')
            op = r.choice(BIGOPS)
            lo, lo2 = self.expr(0)
            hi, hi2 = self.expr(0)
            return '%s_{%s}^{%s} ' % (op, lo, hi), '%s_{%s}^{%s} ' % (op, lo2, hi2)
        if self.macros and r.random() < 0.35:
            # a user macro with an optional first argument (empty or non-empty default), given or not
            self.features.add('user-macro-optional')
            name = r.choice(sorted(OPT_MACROS))
            n, dflt, body = OPT_MACROS[name]
            a, a2 = self.expr(d)
            given = r.random() < 0.5
            o1 = r.choice('pk2') if given else dflt
            w = '\\%s%s{%s}' % (name, '[%s]' % o1 if given else '', a)
            e = body.replace('#1', o1).replace('#2', a2)
            return w, e + ' '
        if self.macros:
            self.features.add('user-macro')
            name = r.choice(sorted(MACROS))
            n, body = MACROS[name]
            args = [self.expr(d) for _ in range(n)]
            w = '\\%s' % name + ''.join('{%s}' % a[0] for a in args) + (' ' if n == 0 else '')
            e = body
            for i, a in enumerate(args):
                e = e.replace('#%d' % (i + 1), a[1])
            return w, e + ' '
        return self.braced(d)

    def braced(self, depth):
        a, a2 = self.expr(depth)
        return '{%s}' % a, '{%s}' % a2
