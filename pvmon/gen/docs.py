"""Document grammar with ground truth (C07-C14, C17, C18).

gen(r, **opts) builds an AST (nested dicts), latex(ast) prints it, and the
truth functions derive what each observer must see.  Every text leaf is a unique
marker word `Wq<digits>x` (letters and digits only), so a word identifies its
source position.

Generation respects LaTeX's own well-formedness rules that plasTeX is not
claimed to repair: sectioning only at the top level of the body, \\item only
directly in lists, \\label directly after the object it names, no fragile
commands in titles, balanced groups.
"""
import re

MARK_RE = re.compile(r'Wq\d+x')

SEC_NAMES = {-1: 'part', 0: 'chapter', 1: 'section', 2: 'subsection', 3: 'subsubsection', 4: 'paragraph', 5: 'subparagraph', 6: 'subsubparagraph'}
FONT_CMDS = ['textbf', 'emph', 'textit', 'texttt', 'textsc', 'underline']
FONT_DECLS = ['bfseries', 'itshape', 'ttfamily', 'em', 'small', 'large']
THEOREMS = ['zqthm', 'zqlem', 'zqdef']       # declared in the preamble of documents that use them

DEFAULTS = dict(cls=None, sections=True, maxsec=8, lists=True, tables=True, math=True, verbatim=True, floats=True, theorems=True,
                footnotes=True, boxes=True, refs=True, labels=True, index=False, counters=False, appendix=False, probes=False,
                depth=3, blocks=(1, 4), parts=False, eqnarray=False, cite=False, fonts=True, star=True, grouped_heads=0)


HOSTILE_LABELS = ['index', 'a', 'b', 'c', 'all', 'sect0001', 'sect0002', 'sect0003', 's1', 's2', 'f001', 'f002', 'x1', 'x2', 'job-001', 'job-002',
                  'dup:1', 'dup 1', 'dup_1', 'dup-1', 'dup;1', 'index.html', 'Index', 'sect0002.html']


class G(object):
    def __init__(self, r, **opts):
        self.r = r
        self.o = dict(DEFAULTS)
        self.o.update(opts)
        self.n = 0
        self.labels = []          # label names created so far (document order)
        self.nlabel = 0
        self.pending_refs = []
        self.cls = self.o['cls'] or r.choice(['article', 'article', 'book'])
        self.used_theorems = set()
        self.user_counters = False
        self.nsec = 0

    # -- leaves --------------------------------------------------------------
    def mark(self):
        self.n += 1
        return 'Wq%dx' % self.n

    def newlabel(self, kind):
        self.nlabel += 1
        name = '%s:%s%d' % (kind, self.r.choice(['a', 'b', 'x-', 'l']), self.nlabel)
        if self.o.get('wide_labels') and self.r.random() < self.o['wide_labels']:
            # label names LaTeX accepts beyond [a-z0-9:-]: blanks, capitals, dots, underscores-free punctuation
            name = self.r.choice(['%s two %d', 'Main %s%d', '%s.%d', 'the %s no %d', '%s+%d', "%s'%d", '%s_%d', '%s_x_%d', '%s^%d']) % (kind, self.nlabel)
        if self.o.get('hostile_labels') and kind == 'sec' and self.r.random() < self.o['hostile_labels']:
            # labels that collide with static template names, with numbered names, or with each other once forbidden characters are replaced
            free = [x for x in (self.o.get('hostile_pool') or HOSTILE_LABELS) if x not in self.labels]
            if free:
                name = self.r.choice(free)
        self.labels.append(name)
        return name

    def text(self):
        r = self.r
        n = r.choice([1, 1, 2, 3])
        words = [self.mark() for _ in range(n)]
        node = {'t': 'text', 'words': words}
        if self.o.get('adversarial') and r.random() < self.o['adversarial']:
            node['adv'] = r.randrange(len(ADV_POOL))
        elif self.o['probes'] and r.random() < 0.3:
            node['probe'] = r.choice(['quote', 'emdash', 'endash'])
            if node['probe'] != 'quote' and len(words) < 2:
                words.append(self.mark())
        return node

    def inlines(self, depth, allow_fn=True, n=None, allow_math=True, allow_ref=True, allow_verb=False):
        r = self.r
        o = self.o
        out = []
        for _ in range(n or r.randint(1, 4)):
            k = r.random()
            if k < 0.5 or depth <= 0:
                out.append(self.text())
            elif k < 0.6 and o['fonts']:
                out.append({'t': 'fontcmd', 'cmd': r.choice(FONT_CMDS), 'c': self.inlines(depth - 1, allow_fn, 2, allow_math, allow_ref)})
            elif k < 0.68 and o['fonts']:
                out.append({'t': 'fontdecl', 'cmd': r.choice(FONT_DECLS), 'c': self.inlines(depth - 1, allow_fn, 2, allow_math, allow_ref, allow_verb)})
            elif k < 0.74 and o['footnotes'] and allow_fn:
                out.append({'t': 'footnote', 'c': self.inlines(depth - 1, False, 2, allow_math, allow_ref)})
            elif k < 0.8 and o['boxes']:
                out.append({'t': 'box', 'cmd': r.choice(['mbox', 'fbox']), 'c': self.inlines(depth - 1, False, 2, allow_math, allow_ref)})
            elif k < 0.86 and o['math'] and allow_math:
                out.append({'t': 'imath', 'style': r.choice(['$', '$', '\\(']), 'words': [self.mark()]})
            elif k < 0.9 and o['verbatim'] and allow_verb:
                out.append({'t': 'verb', 'delim': r.choice('|!+/'), 'body': self.mark() + r.choice(['', ' \\x{}', '%y', ' ``q\'\' --- '])})
            elif k < 0.96 and o['refs'] and allow_ref:
                out.append({'t': 'ref', 'label': None, 'cmd': r.choice(['ref', 'ref', 'pageref']), 'inmath': bool(o.get('wide_labels')) and r.random() < 0.2})   # bound later
            elif o['index']:
                out.append({'t': 'index', 'entry': None})
            else:
                out.append(self.text())
        return out

    def no_bracket(self, items):
        """text that goes into an optional argument must not contain a closing bracket"""
        for n in items:
            if n.get('t') == 'text' and 'adv' in n and ']' in ADV_POOL[n['adv']][0]:
                n['adv'] = 0
        return items

    # -- blocks ----------------------------------------------------------------
    def para(self, depth):
        return {'t': 'para', 'c': self.inlines(depth, allow_verb=True)}

    def blocks(self, depth, n=None, in_float=False, in_list=False):
        r = self.r
        o = self.o
        out = []
        lo, hi = o['blocks']
        for _ in range(n or r.randint(lo, hi)):
            k = r.random()
            if k < 0.45 or depth <= 0:
                out.append(self.para(depth))
            elif k < 0.58 and o['lists']:
                out.append(self.list_(depth - 1))
            elif k < 0.68 and o['tables']:
                out.append(self.tabular(depth - 1))
            elif k < 0.74:
                out.append({'t': 'env', 'env': r.choice(['quote', 'center', 'quotation', 'flushleft', 'minipage']), 'c': self.blocks(depth - 1, r.randint(1, 2), in_list=in_list)})
            elif k < 0.80 and o['math']:
                out.append(self.dmath())
            elif k < 0.84 and o['verbatim']:
                out.append({'t': 'verbatim', 'star': r.random() < 0.2, 'body': self.verbatim_body()})
            elif k < 0.9 and o['floats'] and not in_float and not in_list:
                out.append(self.float_(depth - 1))
            elif k < 0.96 and o['theorems'] and not in_float:
                out.append(self.theorem(depth - 1))
            elif o['counters']:
                out.append(self.counter_op())
            else:
                out.append(self.para(depth))
        return out

    def verbatim_body(self):
        r = self.r
        lines = []
        for _ in range(r.randint(1, 3)):
            lines.append(self.mark() + r.choice(['', ' \\textbf{x} ', ' % c', ' --- ``q\'\'', '  {  $ &', ' #1 ^_ ~']))
        if r.random() < 0.3:
            # the first character of the listing is one that is special in running text
            lines[0] = r.choice(['\\section{Zv} ', '% ', '{', '$', '\\item ', '~', '#']) + lines[0]
        return '\n'.join(lines)

    def list_(self, depth):
        r = self.r
        kind = r.choice(['itemize', 'enumerate', 'enumerate', 'description'])
        items = []
        for _ in range(r.randint(1, 4)):
            it = {'t': 'item', 'c': self.blocks(depth, r.randint(1, 2), in_list=True)}
            if kind == 'description':
                it['term'] = self.no_bracket(self.inlines(0, False, 1))
            elif r.random() < 0.08:
                it['term'] = self.no_bracket(self.inlines(0, False, 1))      # \item[opt]
                if r.random() < 0.35:
                    it['term'] = []          # \item[]: an explicit, empty label (the usual way to write an unnumbered continuation line)
            if self.o['labels'] and kind == 'enumerate' and 'term' not in it and r.random() < 0.2:
                it['label'] = self.newlabel('it')
            elif self.o.get('term_labels') and 'term' in it and r.random() < self.o['term_labels']:
                # a label in an item with an explicit term (not a numbered object: never referenced, never judged itself;
                # it must not disturb the identifiers of the numbered objects around it)
                self.nxlabel = getattr(self, 'nxlabel', 0) + 1
                it['xlabel'] = 'xl:%d' % self.nxlabel
            items.append(it)
        # what stands between \begin{..} and the first \item: nothing, a comment, or a paragraph break (a blank line or \par there
        # is legal LaTeX and produces nothing)
        lead = r.choice(['', '', '', '', '\n', '\\par ', '% Zc\n', ' \n\n ']) if self.o.get('list_lead', True) else ''
        return {'t': 'list', 'kind': kind, 'items': items, 'lead': lead}

    def tabular(self, depth, nested_ok=True):
        r = self.r
        rich = self.o.get('rich_tables')
        ncol = r.randint(1, 5 if rich else 4)
        aligns = [r.choice('lcrp' if rich else 'lcr') for _ in range(ncol)]
        bars = [r.random() < 0.3 for _ in range(ncol + 1)]
        rows = []
        for _ in range(r.randint(1, 6 if rich else 4)):
            cells = []
            c = 0
            while c < ncol:
                span = 1
                if r.random() < 0.15 and ncol - c >= 2:
                    span = r.randint(2, ncol - c)
                cell = {'span': span, 'c': self.inlines(min(depth, 1), False, r.choice([0, 1, 1, 2]), True, True)}
                if span > 1 or r.random() < 0.05:
                    cell['multi'] = r.choice('lcr')
                if rich:
                    k = r.random()
                    if k < 0.12:
                        cell['decl'] = r.choice(['bfseries', 'itshape', 'ttfamily', 'small'])
                        if not cell['c']:
                            cell['c'] = [self.text()]
                    elif k < 0.18 and nested_ok and 'multi' not in cell:
                        cell['nested'] = self.tabular(0, nested_ok=False)
                        if r.random() < 0.4:
                            cell['c'] = []          # the cell begins with the nested table (a block-level element directly after a rule)
                    elif k < 0.26:
                        cell['group'] = True
                        if not cell['c']:
                            cell['c'] = [self.text()]
                if r.random() < 0.12 and not any(k in cell for k in ('decl', 'nested', 'group')):
                    cell['c'] = []          # an empty cell (header corner, continuation row)
                if rich and aligns[c] == 'p' and span == 1 and 'multi' not in cell and len(cell['c']) >= 2 and not any(k in cell for k in ('decl', 'nested', 'group')) and r.random() < 0.4:
                    cell['parbreak'] = r.choice(['\\par ', '\n\n'])      # a paragraph column may hold more than one paragraph
                cells.append(cell)
                c += span
            if not any(cell['c'] or 'nested' in cell for cell in cells):
                cells[-1]['c'] = [self.text()]      # never a row without any text: plasTeX drops rows that hold rules only (documented)
            row = {'cells': cells, 'hline': r.random() < 0.3, 'cline': None}
            if rich and not row['hline'] and r.random() < 0.25:
                # a \cline aligned with the cell boundaries of this row
                starts = []
                col = 1
                for cell in cells:
                    starts.append((col, col + cell['span'] - 1))
                    col += cell['span']
                i = r.randrange(len(starts))
                j = r.randrange(i, len(starts))
                row['cline'] = [starts[i][0], starts[j][1]]
                if j + 2 <= len(starts) - 1 and r.random() < 0.5:
                    # a second partial rule on the same boundary, further right (a column between the two stays without rule)
                    i2 = r.randrange(j + 2, len(starts))
                    j2 = r.randrange(i2, len(starts))
                    row['cline2'] = [starts[i2][0], starts[j2][1]]
            rows.append(row)
            if self.o.get('blank_rows') and r.random() < self.o['blank_rows']:
                # a row without any text or rule (plasTeX drops such rows by design; "r non-empty rows yield r rows")
                rows.append({'cells': [], 'blank': r.choice(['\\\\', 'cells']), 'hline': False, 'cline': None})
        node = {'t': 'tabular', 'aligns': aligns, 'bars': bars, 'rows': rows, 'hline_end': r.random() < 0.3}
        # the last row as most people write it: without a closing \\ (possible when no rule follows it)
        node['open_last'] = (not node['hline_end']) and not rows[-1].get('blank') and r.random() < 0.4
        if rich:
            node['at'] = [r.random() < 0.2 for _ in range(ncol + 1)]
            node['star'] = r.random() < 0.3
        return node

    def dmath(self):
        r = self.r
        k = r.random()
        if k < 0.4:
            return {'t': 'dmath', 'style': r.choice(['\\[', 'displaymath']), 'words': [self.mark()]}
        node = {'t': 'equation', 'star': False, 'words': [self.mark()]}      # equation* is amsmath, not base LaTeX
        if self.o['eqnarray'] and r.random() < 0.3:
            node = {'t': 'eqnarray', 'star': r.random() < 0.3, 'rows': [{'words': [self.mark()], 'nonumber': r.random() < 0.3} for _ in range(r.randint(1, 3))]}
            # a row end directly before the end of the environment: LaTeX sets (and numbers) the empty row it opens
            node['trail'] = r.random() < 0.25
            if node['star']:
                # eqnarray*: no row is numbered (the numbered class derives from the starred one in plasTeX)
                for row in node['rows']:
                    row['nonumber'] = False
                return node
            if self.o['labels']:
                for row in node['rows']:
                    if not row['nonumber'] and r.random() < 0.3:
                        row['label'] = self.newlabel('eq')
            return node
        if self.o['labels'] and not node['star'] and r.random() < 0.5:
            node['label'] = self.newlabel('eq')
        return node

    def float_(self, depth):
        r = self.r
        kind = r.choice(['figure', 'table'])
        node = {'t': 'float', 'kind': kind, 'c': self.blocks(depth, 1, in_float=True), 'caption': None}
        if r.random() < 0.85:
            node['caption'] = self.inlines(0, False, 2, False, False)
            if self.o['labels'] and r.random() < 0.6:
                node['label'] = self.newlabel('fig' if kind == 'figure' else 'tab')
        node['caption_first'] = r.random() < 0.3
        node['wide'] = r.random() < 0.2          # figure* / table*: the two-column forms, numbered like the plain ones
        if node['caption'] is not None and r.random() < 0.15:
            node['cap_env'] = r.choice(['center', 'flushleft'])      # the caption stands inside an environment within the float
        return node

    def theorem(self, depth):
        r = self.r
        env = r.choice(THEOREMS)
        self.used_theorems.add(env)
        node = {'t': 'theorem', 'env': env, 'c': self.blocks(depth, r.randint(1, 2), in_float=True), 'title': None}
        if r.random() < 0.3:
            node['title'] = self.no_bracket(self.inlines(0, False, 1, False, False))
        if self.o['labels'] and r.random() < 0.4:
            node['label'] = self.newlabel('thm')
        return node

    def counter_op(self):
        r = self.r
        names = ['section', 'subsection', 'equation', 'figure', 'table', 'zqthm', 'footnote', 'zqu', 'zqw', 'zqu']
        if self.cls == 'book':
            names.append('chapter')
        name = r.choice(names)
        if name in ('zqu', 'zqw'):
            self.user_counters = True      # \newcounter{zqu}[section], \newcounter{zqw}[zqu]: a chain of user counters
        elif name.startswith('zq'):
            self.used_theorems.add(name)
        op = r.choice(['setcounter', 'addtocounter', 'stepcounter'])
        return {'t': 'counter', 'op': op, 'name': name, 'value': r.choice([0, 1, 2, 5, 10]) if op == 'setcounter' else r.choice([1, 2, 3])}

    # -- sections ---------------------------------------------------------------
    def section(self, level, depth):
        r = self.r
        o = self.o
        self.nsec += 1
        # (a footnote in a heading only where a check asks for it: the title then goes into the contents as well)
        node = {'t': 'sec', 'level': level, 'star': o['star'] and r.random() < 0.15,
                'title': self.inlines(1 if o['fonts'] else 0, bool(o.get('title_footnotes')) and r.random() < o['title_footnotes'], r.choice([1, 2, 3]) if o.get('title_footnotes') else r.choice([1, 2]), o['math'], False),
                'c': self.blocks(depth, r.randint(0, 3)), 'subs': [], 'label': None, 'toc': None}
        if o.get('empty_titles') and r.random() < o['empty_titles']:
            # \section{}: a unit whose title has no text at all (it still is a unit, still gets its number and its file)
            node['title'] = []
        if o.get('short_titles') and not node['star'] and r.random() < o['short_titles']:
            # \section[short title]{title}: the short form is what tables of contents and navigation print
            node['toc'] = self.no_bracket(self.inlines(0, False, 1, False, False))
        if o['labels'] and r.random() < 0.5:
            node['label'] = self.newlabel('sec')
            if o.get('late_labels') and r.random() < o['late_labels'] and node['c'] and node['c'][0]['t'] == 'para' and not node['star']:
                # the label stands after the first paragraph of the unit (with its footnotes, boxes, formulas) instead of directly after the command
                node['late_label'] = True
        if o.get('grouped_heads') and len(node['c']) >= 2 and not node.get('late_label') and r.random() < o['grouped_heads']:
            # the heading stands inside a group (an idiom for keeping a declaration local) that closes in the middle of the unit's body
            node['grouped'] = r.choice(['{', '{', 'begingroup'])
        # down to \subparagraph; with the option deep6 also plasTeX's own seventh level, \subsubparagraph (no LaTeX numbering rule exists for it)
        if level < (6 if o.get('deep6') else 5) and self.nsec < o['maxsec']:
            have_direct = False
            for _ in range(r.choice([0, 0, 1, 2, 3])):
                if self.nsec >= o['maxsec']:
                    break
                # a unit that skips a level can only come before the first unit of the next level
                # (after it, LaTeX nests the deeper unit inside that sibling)
                sub = level + 1 if (have_direct or r.random() < 0.9 or level >= 4) else level + 2
                if sub == level + 1:
                    have_direct = True
                node['subs'].append(self.section(sub, depth))
        return node

    def document(self):
        r = self.r
        o = self.o
        body = {'t': 'doc', 'cls': self.cls, 'c': [], 'secs': [], 'appendix': None}
        body['c'] = self.blocks(o['depth'], r.randint(0, 2))
        if o['sections']:
            top = 0 if self.cls == 'book' else 1
            nsecs = r.randint(1, 3)
            for i in range(nsecs):
                if self.nsec >= o['maxsec']:
                    break
                if o['parts'] and r.random() < 0.15:
                    body['secs'].append({'t': 'sec', 'level': -1, 'star': False, 'title': self.inlines(0, False, 1, False, False), 'c': [], 'subs': [], 'label': None})
                if o['appendix'] and i > 0 and body['appendix'] is None and r.random() < 0.3:
                    body['appendix'] = len(body['secs'])
                body['secs'].append(self.section(top, o['depth']))
        body['pre_counters'] = []
        if o['counters'] and r.random() < 0.3:
            # counters assigned in the preamble (a document that continues the numbering of another one): in force from \begin{document} on
            for _ in range(r.randint(1, 2)):
                name = r.choice(['section', 'equation', 'figure', 'table', 'footnote'] + (['chapter'] if self.cls == 'book' else ['subsection']))
                op = r.choice(['setcounter', 'setcounter', 'addtocounter', 'stepcounter'])
                body['pre_counters'].append({'t': 'counter', 'op': op, 'name': name, 'value': r.choice([1, 2, 4, 9]) if op == 'setcounter' else r.choice([1, 2, 3])})
        self.bind_refs(body)
        body['theorems'] = sorted(self.used_theorems)
        body['user_counters'] = self.user_counters
        body['labels'] = list(self.labels)
        return body

    def bind_refs(self, doc):
        """give every \\ref a target: an existing label (before or after the reference) or a dangling name"""
        r = self.r
        k = [0]

        def visit(node):
            if isinstance(node, list):
                for x in node:
                    visit(x)
            elif isinstance(node, dict):
                if node.get('t') == 'ref' and node['label'] is None:
                    if self.labels and r.random() < 0.8:
                        node['label'] = r.choice(self.labels)
                    else:
                        k[0] += 1
                        node['label'] = 'dangling:%d' % k[0]
                        node['dangling'] = True
                for v in node.values():
                    if isinstance(v, (list, dict)):
                        visit(v)
        visit(doc)


def gen(r, **opts):
    return G(r, **opts).document()


# ---------------------------------------------------------------------------
# printing

# adversarial text leaves for C12: (LaTeX source, characters the reader must see), M = the marker word
ADV_POOL = [
    ('M<b>', 'M<b>'), ('</p>M', '</p>M'), ('M\\&amp;', 'M&amp;'), ('\\&lt;M', '&lt;M'), ('M\\&\\#60;', 'M&#60;'),
    ('<script>M</script>', '<script>M</script>'), ('M" onx="', 'M" onx="'), ("'M'", '\u2019M\u2019'), ('M\\&lt-width;', 'M&lt-width;'),
    ('<!--M', '<!\u2013M'), (']]>M', ']]>M'), ('M\u00e9\u03bb\u2014\u00df', 'M\u00e9\u03bb\u2014\u00df'), ('M<img src=x onerror=alert(1)>', 'M<img src=x onerror=alert(1)>'),
    ('M\\&\\#x3c;b\\&\\#x3e;', 'M&#x3c;b&#x3e;'), ('M>\\&<', 'M>&<'), ('M\\&quot;', 'M&quot;'), ('<a href="x">M</a>', '<a href="x">M</a>'),
    # characters outside the Basic Multilingual Plane (an emoji, a mathematical letter, a CJK extension B ideograph)
    ('M\U0001f600\U0001d538\U00020000', 'M\U0001f600\U0001d538\U00020000'),
    # characters that Unicode normalization would replace (Kelvin and Ohm signs, a compatibility ideograph, a decomposed accent),
    # and a leaf that begins with a combining mark (it must not merge with the markup character before it)
    ('M\u212a\u2126\ufa19e\u0301', 'M\u212a\u2126\ufa19e\u0301'), ('\u0338M\u0338', '\u0338M\u0338'),
    # Unicode's line and paragraph separators and an ideographic space inside a word: text, not line structure
    ('M\u2028a\u2029b\u3000c', 'M\u2028a\u2029b\u3000c'),
    # text that looks like an (empty) attribute: it is not one
    ('M<a href="">', 'M<a href="">'), ('M id="" class=""', 'M id="" class=""'),
]
ADV_ON = [True]


def adv_expected(n):
    """characters of an adversarial leaf as they must be displayed (all its words)"""
    src, exp = ADV_POOL[n['adv']]
    return ' '.join([exp.replace('M', n['words'][0])] + n['words'][1:])


def p_inlines(items):
    out = []
    for n in items:
        t = n['t']
        if t == 'text':
            w = n['words']
            pr = n.get('probe')
            if 'adv' in n and ADV_ON[0]:
                out.append(' '.join([ADV_POOL[n['adv']][0].replace('M', w[0])] + w[1:]))
            elif pr == 'quote':
                out.append('``' + ' '.join(w) + "''")
            elif pr == 'emdash':
                out.append(w[0] + '---' + ' '.join(w[1:]))
            elif pr == 'endash':
                out.append(w[0] + '--' + ' '.join(w[1:]))
            else:
                out.append(' '.join(w))
        elif t == 'fontcmd':
            out.append('\\%s{%s}' % (n['cmd'], p_inlines(n['c'])))
        elif t == 'fontdecl':
            out.append('{\\%s %s}' % (n['cmd'], p_inlines(n['c'])))
        elif t == 'footnote':
            out.append('\\footnote{%s}' % p_inlines(n['c']))
        elif t == 'box':
            out.append('\\%s{%s}' % (n['cmd'], p_inlines(n['c'])))
        elif t == 'imath':
            # (the exponent sometimes sits on a control word and is the last thing before the closing delimiter)
            body = ' + '.join(n['words']) + ('^2', ' + \\alpha^2', '^{2}\\sigma^n')[sum(map(ord, n['words'][0])) % 3]
            out.append('$%s$' % body if n['style'] == '$' else '\\(%s\\)' % body)
        elif t == 'verb':
            out.append('\\verb%s%s%s' % (n['delim'], n['body'], n['delim']))
        elif t == 'ref':
            # (a reference written in mathematics: the name is then read under math-mode category codes, or was tokenized under them)
            out.append(('$\\%s{%s}$' if n.get('inmath') else '\\%s{%s}') % (n.get('cmd', 'ref'), n['label']))
        elif t == 'index':
            out.append('\\index{%s}' % n['entry'])
        elif t == 'raw':
            out.append(n['src'])
    return ' '.join(out)


SEP = ['\n']        # separator between blocks: '\n' gives a blank line (paragraph break), '' none


def p_blocks(blocks, ind=''):
    out = []
    for b in blocks:
        t = b['t']
        if t == 'para':
            out.append(p_inlines(b['c']) + '\n')
        elif t == 'list':
            s = '\\begin{%s}\n' % b['kind'] + b.get('lead', '')
            for it in b['items']:
                s += '\\item'
                if 'term' in it:
                    s += '[%s]' % p_inlines(it['term'])
                if it.get('label'):
                    s += '\\label{%s}' % it['label']
                if it.get('xlabel'):
                    s += '\\label{%s}' % it['xlabel']
                s += ' ' + p_blocks(it['c'])
            s += '\\end{%s}\n' % b['kind']
            out.append(s)
        elif t == 'tabular':
            out.append(p_tabular(b))
        elif t == 'env':
            out.append('\\begin{%s}%s\n%s\\end{%s}\n' % (b['env'], '{6cm}' if b['env'] == 'minipage' else '', p_blocks(b['c']), b['env']))
        elif t == 'dmath':
            body = ' = '.join(b['words']) + ('', ' = \\lambda^n', '_1')[sum(map(ord, b['words'][0])) % 3]
            out.append('\\[ %s \\]\n' % body if b['style'] == '\\[' else '\\begin{displaymath} %s \\end{displaymath}\n' % body)
        elif t == 'equation':
            env = 'equation*' if b['star'] else 'equation'
            lab = '\\label{%s}' % b['label'] if b.get('label') else ''
            if lab and _spaced(b['label']):
                # the label at the end, after a starred spacing command (which is no labelable object)
                out.append('\\begin{%s} %s \\hspace*{1em}%s \\end{%s}\n' % (env, ' = '.join(b['words']), lab, env))
            else:
                out.append('\\begin{%s}%s %s \\end{%s}\n' % (env, lab, ' = '.join(b['words']), env))
        elif t == 'eqnarray':
            rows = []
            for row in b['rows']:
                rows.append('%s & = & x%s%s' % (row['words'][0], ' \\nonumber' if row['nonumber'] else '', '\\label{%s}' % row['label'] if row.get('label') else ''))
            env = 'eqnarray*' if b.get('star') else 'eqnarray'
            out.append('\\begin{%s}\n%s%s\n\\end{%s}\n' % (env, ' \\\\\n'.join(rows), ' \\\\' if b.get('trail') else '', env))
        elif t == 'verbatim':
            env = 'verbatim*' if b['star'] else 'verbatim'
            out.append('\\begin{%s}\n%s\n\\end{%s}\n' % (env, b['body'], env))
        elif t == 'float':
            cap = ''
            if b['caption'] is not None:
                cap = '\\caption{%s}' % p_inlines(b['caption'])
                if b.get('label'):
                    cap += '\\label{%s}' % b['label']
                cap += '\n'
                if b.get('cap_env'):
                    cap = '\\begin{%s}\n%s\\end{%s}\n' % (b['cap_env'], cap, b['cap_env'])
            inner = p_blocks(b['c'])
            body = cap + inner if b['caption_first'] else inner + cap
            env = b['kind'] + ('*' if b.get('wide') else '')
            out.append('\\begin{%s}\n%s\\end{%s}\n' % (env, body, env))
        elif t == 'theorem':
            s = '\\begin{%s}' % b['env']
            if b['title'] is not None:
                s += '[%s]' % p_inlines(b['title'])
            if b.get('label'):
                s += '\\label{%s}' % b['label']
            s += '\n' + p_blocks(b['c']) + '\\end{%s}\n' % b['env']
            out.append(s)
        elif t == 'counter':
            probe = ' Zu\\arabic{zqu}v\\arabic{zqw}w' if b['name'] in ('zqu', 'zqw') else ''      # the user counters are printed after each operation on them
            if b['op'] == 'stepcounter':
                out.append('\\stepcounter{%s}%s\n' % (b['name'], probe))
            else:
                out.append('\\%s{%s}{%d}%s\n' % (b['op'], b['name'], b['value'], probe))
        elif t == 'raw':
            out.append(b['src'] + '\n')
    return SEP[0].join(out)


def colspec(b):
    """column specification text; with rich tables: @{} expressions and *{n}{..} repetition"""
    cols = []
    n = len(b['aligns'])
    at = b.get('at') or [False] * (n + 1)
    for i, a in enumerate(b['aligns']):
        pre = ''
        if i == 0:
            if at[0]:
                pre += '@{}'
            if b['bars'][0]:
                pre += '|'
        item = ('p{2cm}' if a == 'p' else a)
        post = ''
        if at[i + 1]:
            post += '@{ }' if i + 1 < n else '@{}'
        if b['bars'][i + 1]:
            post += '|'
        cols.append((pre, item + post))
    out = ''
    i = 0
    while i < n:
        pre, item = cols[i]
        j = i
        while b.get('star') and j + 1 < n and cols[j + 1] == ('', item) and '@' not in item:
            j += 1
        if j > i and (pre == '' or True):
            out += pre + '*{%d}{%s}' % (j - i + 1, item)
            i = j + 1
        else:
            out += pre + item
            i += 1
    return out


def p_cell(c):
    txt = p_inlines(c['c'])
    if c.get('parbreak'):
        txt = p_inlines(c['c'][:1]) + c['parbreak'] + p_inlines(c['c'][1:])
    if c.get('group'):
        txt = '{' + txt + '}'
    if c.get('decl'):
        txt = '\\%s %s' % (c['decl'], txt)
    if c.get('nested'):
        txt = txt + ' ' + p_tabular(c['nested']).rstrip('\n')
    if 'multi' in c:
        txt = '\\multicolumn{%d}{%s}{%s}' % (c['span'], c['multi'], txt)
    return txt


def p_tabular(b):
    s = '\\begin{tabular}{%s}\n' % colspec(b)
    for row in b['rows']:
        if row['hline']:
            s += '\\hline\n'
        elif row.get('cline'):
            s += '\\cline{%d-%d}' % tuple(row['cline']) + ('\\cline{%d-%d}' % tuple(row['cline2']) if row.get('cline2') else '') + '\n'
        if row.get('blank'):
            s += (' \\\\\n' if row['blank'] != 'cells' else ' & ' * (len(b['aligns']) - 1) + ' \\\\\n')
            continue
        s += ' & '.join(p_cell(c) for c in row['cells']) + ('\n' if (b.get('open_last') and row is b['rows'][-1]) else ' \\\\\n')
    if b['hline_end']:
        s += '\\hline\n'
    return s + '\\end{tabular}\n'


def _spaced(label):
    """a third of the labels (chosen by the label's text) stand behind a starred spacing command"""
    return sum(map(ord, label)) % 3 == 0


def p_sec(s):
    name = SEC_NAMES[s['level']]
    out = '\\%s%s%s{%s}' % (name, '*' if s['star'] else '', ('[%s]' % p_inlines(s['toc'])) if s.get('toc') else '', p_inlines(s['title']))
    if s.get('label') and s.get('late_label'):
        out += '\n' + p_inlines(s['c'][0]['c']) + ('\\vspace*{2mm}' if _spaced(s['label']) else '') + '\\label{%s}\n' % s['label'] + (SEP[0] if len(s['c']) > 1 else '') + p_blocks(s['c'][1:])
    else:
        if s.get('label'):
            out += '\\label{%s}' % s['label']
        if s.get('grouped'):
            op, cl = ('{\\small ', '}') if s['grouped'] == '{' else ('\\begingroup\\small ', '\\endgroup ')
            out = op + out + '\n' + p_blocks(s['c'][:1]) + cl + SEP[0] + p_blocks(s['c'][1:])
        else:
            out += '\n' + p_blocks(s['c'])
    for sub in s['subs']:
        out += SEP[0] + p_sec(sub)
    return out


def preamble(doc, extra=''):
    s = '\\documentclass{%s}\n' % doc['cls']
    th = doc.get('theorems', [])
    if 'zqthm' in th or 'zqlem' in th:
        s += '\\newtheorem{zqthm}{Theorem}\n'
    if 'zqlem' in th:
        s += '\\newtheorem{zqlem}[zqthm]{Lemma}\n'
    if 'zqdef' in th:
        s += '\\newtheorem{zqdef}{Definition}[section]\n'
    if doc.get('user_counters'):
        s += '\\newcounter{zqu}[section]\\newcounter{zqw}[zqu]\n'
    for b in doc.get('pre_counters', ()):
        s += ('\\stepcounter{%s}\n' % b['name']) if b['op'] == 'stepcounter' else ('\\%s{%s}{%d}\n' % (b['op'], b['name'], b['value']))
    return s + extra


def latex(doc, extra_preamble='', body_prefix='', body_suffix='', tight=False):
    """tight=True prints no blank lines between blocks (consecutive paragraphs then form one
    paragraph, for TeX and for the marker order alike)"""
    SEP[0] = '' if tight else '\n'
    try:
        return _latex(doc, extra_preamble, body_prefix, body_suffix)
    finally:
        SEP[0] = '\n'


def _latex(doc, extra_preamble='', body_prefix='', body_suffix=''):
    s = preamble(doc, extra_preamble) + '\\begin{document}\n' + body_prefix
    s += p_blocks(doc['c'])
    for i, sec in enumerate(doc['secs']):
        if doc.get('appendix') == i:
            s += SEP[0] + '\\appendix\n'
        s += SEP[0] + p_sec(sec)
    return s + body_suffix + '\n\\end{document}\n'


# ---------------------------------------------------------------------------
# truth: marker order (depth-first, arguments before content)

def inline_markers(items, out, verb=True):
    for n in items:
        t = n['t']
        if t == 'text':
            out.extend(n['words'])
        elif t in ('fontcmd', 'fontdecl', 'footnote', 'box'):
            inline_markers(n['c'], out, verb)
        elif t == 'imath':
            out.extend(n['words'])
        elif t == 'verb' and verb:
            out.extend(MARK_RE.findall(n['body']))


def block_markers(blocks, out):
    for b in blocks:
        t = b['t']
        if t == 'para':
            inline_markers(b['c'], out)
        elif t == 'list':
            for it in b['items']:
                if 'term' in it:
                    inline_markers(it['term'], out)
                block_markers(it['c'], out)
        elif t == 'tabular':
            tabular_markers(b, out)
        elif t in ('env', 'theorem'):
            if t == 'theorem' and b['title'] is not None:
                inline_markers(b['title'], out)
            block_markers(b['c'], out)
        elif t in ('dmath', 'equation'):
            out.extend(b['words'])
        elif t == 'eqnarray':
            for row in b['rows']:
                out.extend(row['words'])
        elif t == 'verbatim':
            out.extend(MARK_RE.findall(b['body']))
        elif t == 'float':
            if b['caption'] is not None and b['caption_first']:
                inline_markers(b['caption'], out)
            block_markers(b['c'], out)
            if b['caption'] is not None and not b['caption_first']:
                inline_markers(b['caption'], out)


def cell_markers(c, out):
    inline_markers(c['c'], out)
    if c.get('nested'):
        tabular_markers(c['nested'], out)


def tabular_markers(b, out):
    for row in b['rows']:
        for c in row['cells']:
            cell_markers(c, out)


def sec_markers(s, out):
    inline_markers(s['title'], out)
    block_markers(s['c'], out)
    for sub in s['subs']:
        sec_markers(sub, out)


def markers(doc):
    out = []
    block_markers(doc['c'], out)
    for s in doc['secs']:
        sec_markers(s, out)
    return out


def walk(node, fn):
    """generic pre-order visit of every dict node of the AST"""
    if isinstance(node, list):
        for x in node:
            walk(x, fn)
    elif isinstance(node, dict):
        fn(node)
        for k, v in node.items():
            if isinstance(v, (list, dict)):
                walk(v, fn)
