"""Shared helpers: seeded RNG per case, case hashing, per-worker statistics,
per-case alarm, plasTeX state reset between cases."""
import hashlib, json, os, random, signal, sys, collections

VERIF = os.path.dirname(os.path.dirname(os.path.abspath(__file__)))
REPO = os.environ.get('PVMON_REPO', '/repo')


def rng_for(seed, prop, i, salt=''):
    return random.Random('%s:%s:%s:%s' % (seed, prop, i, salt))


def case_hash(case):
    return hashlib.sha1(json.dumps(case, sort_keys=True, default=repr).encode('utf-8', 'surrogatepass')).digest()[:8]


def sharded(n, shard, nshards):
    return range(shard, n, nshards)


class CaseTimeout(BaseException):
    pass


def _alarm(signum, frame):
    raise CaseTimeout()


def arm(seconds):
    signal.signal(signal.SIGALRM, _alarm)
    # repeat every second after the first expiry: plasTeX has bare excepts
    signal.setitimer(signal.ITIMER_REAL, seconds, 1.0)


def disarm():
    signal.setitimer(signal.ITIMER_REAL, 0, 0)


class Stats(object):
    """Everything a worker reports; merged by the parent."""

    def __init__(self):
        self.evaluations = 0
        self.nontrivial_hashes = set()
        self.outcomes = collections.Counter()
        self.hooks = collections.Counter()      # hook name -> number of evaluations
        self.features = {}                      # family -> set of observed states
        self.samples = []
        self.viol = {}                          # key -> {'n': int, 'witnesses': [..]}
        self.notes = collections.Counter()
        self.reach = {}
        self.counters = collections.Counter()   # free-form measured numbers

    def feature(self, family, value):
        self.features.setdefault(family, set()).add(value)

    def violation(self, key, case, msg):
        v = self.viol.setdefault(key, {'n': 0, 'witnesses': []})
        v['n'] += 1
        if len(v['witnesses']) < 3:
            v['witnesses'].append({'case': case, 'msg': msg[:4000]})

    def dump(self):
        return {
            'evaluations': self.evaluations,
            'outcomes': dict(self.outcomes),
            'hooks': dict(self.hooks),
            'features': {k: sorted(map(_js, v)) for k, v in self.features.items()},
            'samples': self.samples,
            'viol': self.viol,
            'notes': dict(self.notes),
            'reach': self.reach,
            'counters': dict(self.counters),
        }


def _js(v):
    if isinstance(v, (str, int, float, bool)) or v is None:
        return v if isinstance(v, str) else json.dumps(v)
    return json.dumps(v, default=repr)


# ---------------------------------------------------------------------------
# Interpreter-wide plasTeX state that leaks between documents on the pinned
# tree (that is property C17).  Every check except C17 resets it before each
# case so that a C17 defect cannot raise a false alarm elsewhere.

_initial = None


def plastex_reset():
    global _initial
    import plasTeX
    from plasTeX.Base.TeX.Primitives import MathShift
    from plasTeX.Base.LaTeX.Lists import List
    from plasTeX.Base.LaTeX.Math import BeginMath, EndMath
    PC = plasTeX.ParameterCommand
    leaked = []
    if MathShift.inEnv:
        leaked.append('MathShift.inEnv')
        MathShift.inEnv[:] = []
    if List.depth != 0:
        leaked.append('List.depth')
        List.depth = 0
    if PC._enablelevel != 0 or PC.enabled is not True:
        leaked.append('ParameterCommand._enablelevel')
        PC._enablelevel = 0
        PC.enabled = True
    for c in (BeginMath, EndMath):
        if getattr(c, 'disableMath', False):
            leaked.append('disableMath')
            c.disableMath = False
    # class-level attributes patched by document classes / register assignments
    global _class_snap
    if _class_snap is None:
        import plasTeX.Base            # noqa: make sure the base macro classes exist
        _class_snap = ClassAttrSnapshot().take()
    else:
        leaked.extend(_class_snap.restore())
    return leaked


_class_snap = None


def _unused():
    pass


class ClassAttrSnapshot(object):
    """Snapshot / restore of class-level attributes of Macro subclasses
    (register values, counters/levels patched by document classes)."""

    NAMES = ('value', 'counter', 'level', 'args', 'position', 'format', 'columnTypes', 'blockType')

    def __init__(self):
        self.snap = {}

    def take(self):
        import plasTeX
        self.snap = {}
        for cls in _all_subclasses(plasTeX.Macro):
            d = vars(cls)
            for n in self.NAMES:
                if n in d:
                    v = d[n]
                    if isinstance(v, dict):
                        v = dict(v)
                    self.snap[(cls, n)] = v
        return self

    def restore(self):
        changed = []
        for (cls, n), v in self.snap.items():
            cur = vars(cls).get(n, _MISSING)
            if cur is _MISSING or not _same(cur, v):
                changed.append('%s.%s' % (cls.__name__, n))
                try:
                    setattr(cls, n, dict(v) if isinstance(v, dict) else v)
                except Exception:
                    pass
        return changed


_MISSING = object()


def _same(a, b):
    if a is b:
        return True
    try:
        if type(a) is type(b) and isinstance(a, (int, float, str, dict, tuple)):
            return a == b
    except Exception:
        pass
    return False


def _all_subclasses(c):
    out = []
    seen = set()
    todo = [c]
    while todo:
        k = todo.pop()
        for s in k.__subclasses__():
            if s not in seen:
                seen.add(s)
                out.append(s)
                todo.append(s)
    return out


def quiet_logging():
    """plasTeX logs warnings for many hostile inputs; silence them."""
    import logging
    logging.disable(logging.CRITICAL)
    try:
        from plasTeX.Logging import disableLogging
        disableLogging()
    except Exception:
        pass
